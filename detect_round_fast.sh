#!/bin/bash
# usage: detect_round_fast.sh <round letter>   (run from a /verif snapshot: checks are frozen there)
# Own-property check first; the nine other checks only when that one stays quiet.
cd "$(dirname "$0")"
ALL="C01 C03 C04 C06 C08 C09 C11 C16 C17 C18"
for d in seeded/C*-$1?; do
  own=$(basename $d | cut -c1-3)
  /venv/bin/python tools_seeded.py detect $d --props $own > $d/detect.json 2>/dev/null
  if ! grep -q '"exit": 1' $d/detect.json; then
    rest=$(echo $ALL | tr ' ' '\n' | grep -v $own | paste -sd,)
    /venv/bin/python tools_seeded.py detect $d --props $own,$rest > $d/detect.json 2>/dev/null
  fi
  echo "$(basename $d) $(date +%H:%M:%S) $(grep -c '"exit": 1' $d/detect.json)"
done
echo ALLDONE
