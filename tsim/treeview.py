"""Raw tree dumps (simproc.dump_tree) -> well-formedness verdicts and model sentences.

No repository imports.  A dump is {'ret': id, 'top': id, 'nodes': [rec...], 'problems': [...]}
with rec = {'id', 'd': [label, word, lemma, morph, edge, num], 'has_num', 'f': flags,
'c': [child ids], 'p': parent id or None}.
"""
from . import model

L_LABEL, L_WORD, L_LEMMA, L_MORPH, L_EDGE, L_NUM = range(6)


def index(dump):
    return dict((r['id'], r) for r in dump['nodes'])


def wellformed(dump):
    """List of problem strings (empty list = well formed).

    one root reachable set, parent/child symmetry, acyclic / no sharing, no childless
    constituent, tokens numbered 1..n without holes or repeats, returned node has no parent.
    """
    probs = list(dump['problems'])
    idx = index(dump)
    ret = dump['ret']
    if idx[ret]['p'] is not None:
        probs.append('returned-node-has-parent')
    seen_as_child = {}
    for r in dump['nodes']:
        if len(set(r['c'])) != len(r['c']):
            probs.append('duplicate-child-entry')
        for c in r['c']:
            if c in seen_as_child:
                probs.append('node-with-two-parents-or-cycle')
            seen_as_child[c] = r['id']
            if c not in idx:
                probs.append('child-not-dumped')
            elif idx[c]['p'] != r['id']:
                probs.append('parent-pointer-mismatch')
    if ret in seen_as_child:
        probs.append('cycle-through-returned-node')
    nums = []
    for r in dump['nodes']:
        if not r['c']:
            if not r['has_num'] or not isinstance(r['d'][L_NUM], int) \
                    or isinstance(r['d'][L_NUM], bool):
                # a leaf that is not a numbered token: childless constituent
                probs.append('childless-constituent')
            else:
                nums.append(r['d'][L_NUM])
    if sorted(nums) != list(range(1, len(nums) + 1)):
        if len(set(nums)) != len(nums):
            probs.append('token-numbers-repeat')
        else:
            probs.append('token-numbers-not-1..n')
    return sorted(set(probs))


def to_sentence(dump, sid_from='root'):
    """Model sentence of a well-formed dump (call wellformed() first)."""
    idx = index(dump)
    leaves = sorted([r for r in dump['nodes'] if not r['c']], key=lambda r: r['d'][L_NUM])
    tokens = []
    for r in leaves:
        d = r['d']
        tokens.append([d[L_WORD], d[L_LABEL], d[L_LEMMA], d[L_MORPH], d[L_EDGE]])

    def rec(nid):
        r = idx[nid]
        if not r['c']:
            return r['d'][L_NUM]
        kids = [rec(c) for c in r['c']]
        return [r['d'][L_LABEL], r['d'][L_EDGE], sorted(kids, key=model.leftmost)]
    root = rec(dump['ret'])
    sid = idx[dump['ret']]['f'].get('sid')
    if isinstance(root, int):
        # a tree that is a single token node (disclaimed state after collapsing)
        root = [None, None, [root]]
    return {'sid': sid, 'tokens': tokens, 'root': root}


def label_multiset(dump):
    out = {}
    for r in dump['nodes']:
        if r['c']:
            lab = r['d'][L_LABEL]
            out[lab] = out.get(lab, 0) + 1
    return out


def token_seq(dump):
    leaves = sorted([r for r in dump['nodes'] if not r['c'] and r['has_num']],
                    key=lambda r: (r['d'][L_NUM] if isinstance(r['d'][L_NUM], int) else -1))
    return [(r['d'][L_WORD], r['d'][L_LABEL]) for r in leaves]


def node_tokens(dump):
    """id -> sorted token numbers dominated."""
    idx = index(dump)
    memo = {}

    def rec(nid):
        if nid in memo:
            return memo[nid]
        r = idx[nid]
        if not r['c']:
            memo[nid] = [r['d'][L_NUM]]
        else:
            out = []
            for c in r['c']:
                out.extend(rec(c))
            memo[nid] = sorted(out)
        return memo[nid]
    rec(dump['ret'])
    return memo
