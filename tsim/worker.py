"""Worker interpreter.  Started by the master (or, with --companion, by another worker).

It imports the repository once ("pristine": imported, never called) and serves tasks over
length-prefixed pickles on stdin/stdout.  All repository code runs in forked children.
"""
import os
import sys
import traceback
import warnings

sys.dont_write_bytecode = True
sys.setrecursionlimit(6000)
warnings.filterwarnings('ignore', category=SyntaxWarning)
sys.path.insert(0, os.path.dirname(os.path.dirname(os.path.abspath(__file__))))


def main():
    import argparse
    ap = argparse.ArgumentParser()
    ap.add_argument('--repo', default='/repo')
    ap.add_argument('--companion', action='store_true')
    ap.add_argument('--hashseeds', default='0,1')
    ap.add_argument('--cover', action='store_true')
    args = ap.parse_args()
    # protocol channel: keep the original stdout for messages, send stray prints to stderr
    proto_out = os.fdopen(os.dup(1), 'wb')
    proto_in = os.fdopen(os.dup(0), 'rb')
    os.dup2(2, 1)
    sys.stdout = sys.stderr
    from tsim import sim as simmod
    hs = tuple(int(x) for x in args.hashseeds.split(','))
    try:
        S = simmod.Sim(args.repo, hashseeds=hs, want_companion=not args.companion)
    except BaseException:
        simmod.send_msg(proto_out, ('fatal', traceback.format_exc()))
        return 2
    if args.companion:
        while True:
            try:
                spec = simmod.recv_msg(proto_in)
            except EOFError:
                return 0
            try:
                simmod.send_msg(proto_out, ('ok', S.run(spec, hs=0)))
            except BaseException:
                simmod.send_msg(proto_out, ('err', traceback.format_exc()))
    from tsim import props, shrink
    simmod.send_msg(proto_out, ('ready', os.getpid()))
    while True:
        try:
            task = simmod.recv_msg(proto_in)
        except EOFError:
            break
        kind = task[0]
        if kind == 'quit':
            break
        try:
            if kind == 'exec':
                _, prop, scenario = task
                S.cover = bool(scenario.get('cover'))
                res = props.get(prop).execute(scenario, S)
                S.cover = False
                simmod.send_msg(proto_out, ('ok', res))
            elif kind == 'shrink':
                _, prop, scenario, sig, budget = task[:5]
                wall = task[5] if len(task) > 5 else 90
                res = shrink.minimise(props.get(prop), scenario, sig, S, budget, wall)
                simmod.send_msg(proto_out, ('ok', res))
            else:
                simmod.send_msg(proto_out, ('err', 'unknown task %r' % (kind,)))
        except BaseException:
            simmod.send_msg(proto_out, ('err', traceback.format_exc()))
    S.close()
    return 0


if __name__ == '__main__':
    sys.exit(main())
