"""Sensitivity self-test: property-breaking edits applied one at a time to a scratch copy of
the repository (outside /repo and /verif, removed afterwards); the corresponding check must
report a violation within the quick budget and its replay file must reproduce it.

Each mutant: (name, property, file, old text, new text).  All of them keep the repository's
own test-suite green (verified when they were written; `check selftest sensitivity --tests`
re-verifies).
"""
import os
import shutil
import subprocess
import sys
import tempfile

MUTANTS = [
    # ---- C01
    ("c01-term-cnt-not-reset", "C01", "trees/treeinput.py",
     "                        yield queue[0]\n                        term_cnt = 1\n",
     "                        yield queue[0]\n"),
    ("c01-export-sentence-not-cleared", "C01", "trees/treeinput.py",
     "                    in_sentence = False\n                    sentence = []\n",
     "                    in_sentence = False\n                    sentence = sentence[:1]\n"),
    ("c01-token-accepted-after-child", "C01", "trees/treeinput.py",
     "                elif state == 5:\n                    raise ValueError(\"expected whitespace, ( or ), got token\")\n",
     "                elif state == 5:\n                    pass\n"),
    ("c01-tiger-sid-first-number", "C01", "trees/treeinput.py",
     "xml_id = digits.findall(xml_id)[-1]", "xml_id = digits.findall(xml_id)[0]"),
    # ---- C03
    ("c03-discobrackets-writer-0based", "C03", "trees/treeoutput.py",
     "terminal.data['word'] = str(terminal.data['num'])",
     "terminal.data['word'] = str(terminal.data['num'] - 1)"),
    ("c03-tiger-no-quoteattr-cat", "C03", "trees/treeoutput.py",
     "                            quoteattr(subtree.data['label'])))",
     "                            '\"%s\"' % subtree.data['label']))"),
    ("c03-tiger-edge-label-unquoted", "C03", "trees/treeoutput.py",
     "                             % (quoteattr(child.data['edge']),",
     "                             % ('\"%s\"' % child.data['edge'].replace('&', '&amp;'),"),
    ("c03-dest-opened-with-src-enc", "C03", "trees/transform.py",
     "            with io.open(dest, 'w', encoding=args.dest_enc) as dest_stream:",
     "            with io.open(dest, 'w', encoding=args.src_enc) as dest_stream:"),
    # ---- C04
    ("c04-root-attach-no-parent-update", "C04", "trees/transform.py",
     "        target.children.append(child)\n        child.parent = target\n",
     "        target.children.append(child)\n"),
    ("c04-raising-no-parent-update", "C04", "trees/transform.py",
     "            parent.children.append(child)\n            child.parent = parent\n    return tree",
     "            parent.children.append(child)\n    return tree"),
    ("c04-topnode-no-parent", "C04", "trees/transform.py",
     "    top.data['sid'] = tree.data['sid']\n    tree.parent = top\n",
     "    top.data['sid'] = tree.data['sid']\n"),
    # ---- C06
    ("c06-count-assigned", "C06", "trees/grammar.py",
     "            grammar[func][lin][vert] += 1", "            grammar[func][lin][vert] = 1"),
    ("c06-argpos-not-advanced", "C06", "trees/grammar.py",
     "                        rhs_argpos[rhs_pos] += 1", "                        pass"),
    ("c06-lexicon-repeat-dropped", "C06", "trees/grammar.py",
     "            if not word in lexicon:\n                lexicon[word] = Counter([])\n            lexicon[word].update([label])",
     "            if not word in lexicon:\n                lexicon[word] = Counter([])\n                lexicon[word].update([label])\n            elif label not in lexicon[word]:\n                lexicon[word].update([label])"),
    # ---- C08
    ("c08-sum-to-max", "C08", "trees/grammar.py",
     "                rule_cnt = sum(grammar[func][lin].values())",
     "                rule_cnt = max(grammar[func][lin].values())"),
    ("c08-last-site-assigns", "C08", "trees/grammar.py",
     "            result[bin_func][this_lin] = {grammarconst.DEFAULT_VERT: 0}\n        result[bin_func][this_lin][grammarconst.DEFAULT_VERT] += rule_cnt",
     "            result[bin_func][this_lin] = {grammarconst.DEFAULT_VERT: 0}\n        result[bin_func][this_lin][grammarconst.DEFAULT_VERT] = rule_cnt"),
    # ---- C09
    ("c09-rcg-lexicon-counts-one", "C09", "trees/grammaroutput.py",
     "                tags = [\"%s %d\" % (tag, lexicon[word][tag])\n                        for tag in lexicon[word]]\n                lex_stream.write(u\"%s\\t%s\\n\" % (word, ' '.join(tags)))\n\n\nFORMATS",
     "                tags = [\"%s %d\" % (tag, 1)\n                        for tag in lexicon[word]]\n                lex_stream.write(u\"%s\\t%s\\n\" % (word, ' '.join(tags)))\n\n\nFORMATS"),
    ("c09-lopar-start-counts-rules", "C09", "trees/grammaroutput.py",
     "                    startsymbols[func[0]] += count", "                    startsymbols[func[0]] += 1"),
    # ---- C11
    ("c11-cache-never-switches-file", "C11", "trees/transform.py",
     "    if not hasattr(insert_terminals, \"fn\") \\\n       or insert_terminals.fn != params['terminalfile']:",
     "    if not hasattr(insert_terminals, \"fn\") \\\n       or insert_terminals.fn is None:"),
    ("c11-filter-lt-is-le", "C11", "trees/transform.py",
     "        if length < val:", "        if length <= val:"),
    # ---- C16
    ("c16-terminals-counted-as-nodes", "C16", "trees/treeanalysis.py",
     "            # skip terminals\n            if trees.has_children(subtree):",
     "            # skip terminals\n            if True:"),
    ("c16-blocks-off-by-one", "C16", "trees/trees.py",
     "        if terms[i].data['num'] + 1 < terms[i + 1].data['num']:\n            blocks.append([])",
     "        if terms[i].data['num'] + 2 < terms[i + 1].data['num']:\n            blocks.append([])"),
    # ---- C17
    ("c17-ties-to-last-part", "C17", "trees/treeoutput.py",
     "            parts[parts.index(max(parts))] += diff",
     "            parts[len(parts) - 1 - parts[::-1].index(max(parts))] += diff"),
    ("c17-iterator-restarted-per-part", "C17", "trees/transform.py",
     "            sys.stderr.write(\"writing part %d\\n\" % i)\n",
     "            sys.stderr.write(\"writing part %d\\n\" % i)\n            tree_iter = iter(tree_list)\n"),
    # ---- C18
    ("c18-labelgen-module-singleton", "C18", "trees/grammar.py",
     "        label_gen = LabelGenerator()\n        vert = grammarconst.DEFAULT_VERT",
     "        label_gen = _SHARED_LABEL_GEN\n        vert = grammarconst.DEFAULT_VERT"),
    ("c18-brackets-counter-on-function", "C18", "trees/treeinput.py",
     "    cnt = 1\n    if 'brackets_firstid' in params:\n        cnt = params['brackets_firstid']",
     "    cnt = getattr(brackets, 'last_cnt', 1)\n    if 'brackets_firstid' in params:\n        cnt = params['brackets_firstid']"),
]


# Property-preserving edits ("soundness drills", DESIGN §8): no check may raise an alarm.
BENIGN = [
    ("ok-export-single-tabs", "trees/treeoutput.py",
     "    if length < 8:\n        return \"\\t\\t\\t\"\n    elif length < 16:\n        return \"\\t\\t\"\n    else:\n        return \"\\t\"",
     "    return \"\\t\""),
    ("ok-tigerxml-attribute-order-and-indent", "trees/treeoutput.py",
     "        stream.write(u\"%s=%s \" % ('word', quoted['word']))\n        stream.write(u\"%s=%s \" % ('lemma', quoted['lemma']))\n        stream.write(u\"%s=%s \" % ('pos', quoted['label']))",
     "        stream.write(u\"%s=%s \" % ('pos', quoted['label']))\n        stream.write(u\"%s=%s  \" % ('word', quoted['word']))\n        stream.write(u\"%s=%s \" % ('lemma', quoted['lemma']))"),
    ("ok-rcg-writer-sorted-rules", "trees/grammaroutput.py",
     "    with io.open(\"%s.rcg\" % dest, 'w', encoding=dest_enc) as dest_stream:\n        for func in gram:",
     "    with io.open(\"%s.rcg\" % dest, 'w', encoding=dest_enc) as dest_stream:\n        for func in sorted(gram):"),
    ("ok-debug-prints-on-stderr", "trees/treeinput.py",
     "    in_sentence = False\n    sentence = []\n    last_id = None",
     "    in_sentence = False\n    sentence = []\n    last_id = None\n    print('export reader: start', in_file, file=sys.stderr)"),
    ("ok-gunzip-temp-prefix", "trees/misc.py",
     "tempfile.NamedTemporaryFile(mode='w+b', delete=False)",
     "tempfile.NamedTemporaryFile(mode='w+b', delete=False, prefix='treetools-', suffix='.unzipped')"),
    ("ok-directory-listing-sorted-scandir", "trees/transform.py",
     "            for srcfile in os.listdir(args.src):\n                srcfile = os.path.join(args.src, srcfile)",
     "            for srcfile in sorted(e.name for e in os.scandir(args.src)):\n                srcfile = os.path.join(args.src, srcfile)"),
    ("ok-lopar-start-sorted", "trees/grammaroutput.py",
     "        for symbol in startsymbols:", "        for symbol in sorted(startsymbols):"),
    ("ok-node-ids-from-1000", "trees/trees.py",
     "    newid = itertools.count()", "    newid = itertools.count(1000)"),
    ("ok-pathlib-open-for-destination", "trees/transform.py",
     "            with io.open(dest, 'w', encoding=args.dest_enc) as dest_stream:",
     "            import pathlib\n            with pathlib.Path(dest).open('w', encoding=args.dest_enc) as dest_stream:"),
    ("ok-gapdegree-report-extra-line", "trees/treeanalysis.py",
     "        print(\"*** Gap degree summary ***\")",
     "        print(\"*** Gap degree summary ***\")\n        print(\"(computed over all non-terminals)\")"),
    ("ok-lexicon-as-defaultdict", "trees/grammar.py",
     "            if not word in lexicon:\n                lexicon[word] = Counter([])\n            lexicon[word].update([label])",
     "            lexicon.setdefault(word, Counter())[label] += 1"),
    ("ok-export-reader-records-origin-on-nodes", "trees/treeinput.py",
     "    tree = trees.Tree(node_by_num[num])\n    tree.data['terminals'] = []",
     "    tree = trees.Tree(node_by_num[num])\n    tree.data['origin'] = 'export'\n    tree.data['terminals'] = []"),
    # a reader may parse ahead: the discobrackets reader collects all trees before yielding
    ("ok-discobrackets-reader-parses-ahead", "trees/treeinput.py",
     "    params['disco'] = True\n    for tree in brackets(in_file, in_encoding, **params):\n        yield tree",
     "    params['disco'] = True\n    for tree in list(brackets(in_file, in_encoding, **params)):\n        yield tree"),
    # ... and so may the bracket reader (the error of a damaged file then surfaces before any
    # of the intact groups in front of the damage is delivered)
    ("ok-brackets-reader-parses-ahead", "trees/treeinput.py",
     "def brackets(in_file, in_encoding, **params):\n",
     "def brackets(in_file, in_encoding, **params):\n    for tree in list(_brackets_lazy(in_file, in_encoding, **params)):\n        yield tree\n\n\ndef _brackets_lazy(in_file, in_encoding, **params):\n"),
    # rejections raise a subclass of ValueError
    ("ok-reader-errors-are-a-valueerror-subclass", "trees/treeinput.py",
     "raise ValueError(", "raise TreebankFormatError("),
    # PTB-style blanks between the children in bracket output
    ("ok-brackets-writer-blank-before-child", "trees/treeoutput.py",
     "        for child in trees.children(tree):\n            write_brackets_subtree(child, stream, **params)",
     "        for child in trees.children(tree):\n            stream.write(u\" \")\n            write_brackets_subtree(child, stream, **params)"),
    # destinations written under a temporary name and renamed when complete
    ("ok-destination-written-then-renamed", "trees/transform.py",
     "            with io.open(dest, 'w', encoding=args.dest_enc) as dest_stream:",
     "            with _renamed_when_done(dest, args.dest_enc) as dest_stream:"),
    ("ok-split-parts-written-then-renamed", "trees/transform.py",
     "            with io.open(\"%s.%d\" % (args.dest, i), 'w',\n                         encoding=args.dest_enc) as dest_stream:",
     "            with _renamed_when_done(\"%s.%d\" % (args.dest, i), args.dest_enc) as dest_stream:"),
    # grammar files written under a temporary name in the temp directory, then moved
    ("ok-pmcfg-lexicon-via-tempfile", "trees/grammaroutput.py",
     "        with io.open(\"%s.lex\" % dest, 'w', encoding=dest_enc) as lex_stream:",
     "        with _via_temp(\"%s.lex\" % dest, dest_enc) as lex_stream:"),
    # rules extracted bottom-up instead of top-down (other insertion order of the grammar)
    ("ok-extract-visits-nodes-in-reverse", "trees/grammar.py",
     "    for subtree in trees.preorder(tree):\n        if trees.has_children(subtree):\n            # map terminal indices",
     "    for subtree in reversed(list(trees.preorder(tree))):\n        if trees.has_children(subtree):\n            # map terminal indices"),
    # the transform command reports on stdout when it is done
    ("ok-transform-reports-on-stdout", "trees/transform.py",
     "            sys.stderr.write(\"\\n\")\n    else:\n        if os.path.isdir(args.src):",
     "            sys.stderr.write(\"\\n\")\n            print(\"%d trees\" % (cnt - 1))\n    else:\n        if os.path.isdir(args.src):"),
    # an output stream kept in a module-level list (closed only at interpreter exit) -
    # deliberately NOT a drill: the simulated process is harvested before module teardown.
]

REPLACE_ALL = set(["ok-reader-errors-are-a-valueerror-subclass"])


def run_benign(args, seed, repo, jobs, count=500):
    """No registered check may print VIOLATION (or fail) on a property-preserving edit."""
    here = os.path.dirname(os.path.dirname(os.path.abspath(__file__)))
    check = os.path.join(here, 'check')
    from . import props
    rc = 0
    count = int(os.environ.get('VERIF_DRILL_COUNT') or count)
    only = [a.upper() for a in args if a.upper() in props.CLAIMED]
    args = [a for a in args if a.upper() not in props.CLAIMED]
    for (name, rel, old, new) in BENIGN:
        if args and name not in args:
            continue
        base, dst = scratch_copy(repo)
        try:
            if not apply(dst, (name, None, rel, old, new)):
                print('selftest soundness %-40s STALE (pattern not found)' % name)
                rc = 2
                continue
            t = subprocess.run([sys.executable, '-m', 'pytest', '-q', '-x', '-p',
                                'no:cacheprovider'], cwd=dst, capture_output=True, text=True,
                               env=dict(os.environ, PYTHONDONTWRITEBYTECODE='1'))
            alarms = []
            for p in (only or props.CLAIMED):
                r = subprocess.run([sys.executable, check, p, '--repo', dst, '--no-evidence',
                                    '--jobs', str(jobs), '--count', str(count)],
                                   capture_output=True, text=True,
                                   env=dict(os.environ, VERIF_SEED=str(seed)))
                if r.returncode != 0:
                    sig = [l.strip() for l in r.stdout.splitlines()
                           if l.strip().startswith('signature:') or 'HARNESS' in l]
                    alarms.append('%s(exit %d %s)' % (p, r.returncode, sig[:1]))
                    for l in r.stdout.splitlines():
                        if l.startswith('VIOLATION'):
                            try:
                                os.remove(l.split('replay=')[1].strip())
                            except OSError:
                                pass
            print('selftest soundness %-40s %s %s'
                  % (name, 'quiet' if not alarms else 'FALSE-ALARM ' + ' '.join(alarms),
                     'tests-green' if t.returncode == 0 else 'tests-fail'))
            if alarms:
                rc = 2
        finally:
            shutil.rmtree(base, ignore_errors=True)
    return rc


def scratch_copy(repo):
    base = tempfile.mkdtemp(prefix='tsim-mut-')
    dst = os.path.join(base, 'repo')
    shutil.copytree(repo, dst, ignore=shutil.ignore_patterns('.git', '__pycache__', '*.pyc',
                                                              '.benchmarks', '*.egg-info'))
    return base, dst


_RENAMED = ("import contextlib\n\n\n@contextlib.contextmanager\ndef _renamed_when_done(path, enc):\n"
            "    with io.open(path + '.part~', 'w', encoding=enc) as st:\n        yield st\n"
            "    os.replace(path + '.part~', path)\n\n\ndef run(args):\n")

EXTRA = {
    "ok-reader-errors-are-a-valueerror-subclass": [
        ("trees/treeinput.py", "def tigerxml_build_tree(",
         "class TreebankFormatError(ValueError):\n    pass\n\n\ndef tigerxml_build_tree(")],
    "ok-pmcfg-lexicon-via-tempfile": [
        ("trees/grammaroutput.py", "def pmcfg(",
         "import contextlib\nimport os\nimport shutil\nimport tempfile\n\n\n@contextlib.contextmanager\n"
         "def _via_temp(path, enc):\n    fd, tmpname = tempfile.mkstemp()\n    os.close(fd)\n"
         "    with io.open(tmpname, 'w', encoding=enc) as st:\n        yield st\n"
         "    shutil.move(tmpname, path)\n\n\ndef pmcfg(")],
    "ok-destination-written-then-renamed": [("trees/transform.py", "def run(args):\n", _RENAMED)],
    "ok-split-parts-written-then-renamed": [("trees/transform.py", "def run(args):\n", _RENAMED)],
    "c18-labelgen-module-singleton": [("trees/grammar.py", "def linsub(lin, src, dest, replace):",
                                       "_SHARED_LABEL_GEN = LabelGenerator()\n\n\ndef linsub(lin, src, dest, replace):")],
    "c18-brackets-counter-on-function": [("trees/treeinput.py",
                                          "                        cnt += 1\n",
                                          "                        cnt += 1\n                        brackets.last_cnt = cnt\n")],
}


def apply(dst, m):
    name, prop, rel, old, new = m
    for (rel2, old2, new2) in EXTRA.get(name, []):
        p2 = os.path.join(dst, rel2)
        with open(p2, encoding='utf-8') as f:
            s2 = f.read()
        if s2.count(old2) < 1:
            return False
        with open(p2, 'w', encoding='utf-8') as f:
            f.write(s2.replace(old2, new2, 1))
    p = os.path.join(dst, rel)
    with open(p, encoding='utf-8') as f:
        s = f.read()
    if s.count(old) < 1:
        return False
    s = s.replace(old, new) if name in REPLACE_ALL else s.replace(old, new, 1)
    with open(p, 'w', encoding='utf-8') as f:
        f.write(s)
    return True


def run(args, seed, repo, jobs):
    here = os.path.dirname(os.path.dirname(os.path.abspath(__file__)))
    check = os.path.join(here, 'check')
    with_tests = 'tests' in args
    names = [a for a in args if a != 'tests']
    rc = 0
    caught = 0
    total = 0
    for m in MUTANTS:
        if names and m[0] not in names and m[1] not in [n.upper() for n in names]:
            continue
        total += 1
        base, dst = scratch_copy(repo)
        try:
            if not apply(dst, m):
                print('selftest sensitivity %-36s STALE (pattern not found)' % m[0])
                rc = 2
                continue
            if with_tests:
                t = subprocess.run([sys.executable, '-m', 'pytest', '-q', '-x', '-p',
                                    'no:cacheprovider'], cwd=dst, capture_output=True, text=True,
                                   env=dict(os.environ, PYTHONDONTWRITEBYTECODE='1'))
                tests = 'tests-green' if t.returncode == 0 else 'TESTS-FAIL'
            else:
                tests = ''
            env = dict(os.environ, VERIF_SEED=str(seed))
            p = subprocess.run([sys.executable, check, m[1], '--repo', dst, '--no-evidence',
                                '--jobs', str(jobs)], capture_output=True, text=True, env=env)
            lines = [l for l in p.stdout.splitlines() if l.startswith('VIOLATION')]
            sigs = [l.strip() for l in p.stdout.splitlines() if l.strip().startswith('signature:')]
            ok = p.returncode == 1 and bool(lines)
            replay_ok = ''
            if ok:
                path = lines[0].split('replay=')[1].strip()
                r = subprocess.run([sys.executable, check, 'replay', path, '--repo', dst],
                                   capture_output=True, text=True, env=env)
                replay_ok = 'replay-reproduces' if r.returncode == 1 else 'REPLAY-DIFFERS'
                if r.returncode != 1:
                    ok = False
                for l in lines:
                    try:
                        os.remove(l.split('replay=')[1].strip())
                    except OSError:
                        pass
            print('selftest sensitivity %-36s %s %s %s %s'
                  % (m[0], 'caught' if ok else 'MISSED (exit %d)' % p.returncode,
                     replay_ok, tests, sigs[0] if sigs else ''))
            if ok:
                caught += 1
            else:
                rc = 2
        finally:
            shutil.rmtree(base, ignore_errors=True)
    print('selftest sensitivity: %d of %d mutants caught' % (caught, total))
    return rc
