"""tsim: deterministic simulation harness for wmaier/treetools.

Layout
  seams.py     file-system / stdio / platform seams (child side)
  simproc.py   interpreter of session ops inside one simulated process (child side)
  sim.py       fork of simulated processes from a pristine worker, companion interpreter
  worker.py    worker main loop (one real interpreter, never calls repository code itself)
  master.py    orchestration: generation, dispatch, shrink, replay, evidence
  model.py     model treebanks and their generator (no repository imports)
  refcodec.py  reference encoders/decoders of the tree file formats (no repository imports)
  refgram.py   reference grammar extraction / grammar file decoders (no repository imports)
  treeview.py  raw tree dumps -> model, well-formedness predicates
  props/       one module per claimed property
"""
