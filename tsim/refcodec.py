"""Reference encoders / decoders of the tree file formats (no repository imports).

Encoders render a model treebank with a seeded *layout* (whitespace, headers, comments,
attribute order ...) inside what the format documentation allows.  Decoders turn text back
into model treebanks and raise DecodeError on anything that is not a document of the format.
They are written from the format descriptions (Brants 1997 export, PTB brackets, the
discobrackets docstring, TIGER-XML), not from the repository's readers and writers.
"""
import gzip
import io
import re
import xml.etree.ElementTree as ET

from . import model

# documented parenthesis mapping of the bracket writers / replace_parens
PAREN_MAP = [("(", "LRB"), ("-LRB-", "LRB"), ("[", "LSB"), ("-LSB-", "LSB"),
             ("{", "LCB"), ("-LCB-", "LCB"), (")", "RRB"), ("-RRB-", "RRB"),
             ("]", "RSB"), ("-RSB-", "RSB"), ("}", "RCB"), ("-RCB-", "RCB")]


def map_parens(s):
    if s is None:
        return None
    for a, b in PAREN_MAP:
        s = s.replace(a, b)
    return s


class DecodeError(Exception):
    pass


# ---------------------------------------------------------------------------------- bytes
def to_bytes(text, enc="utf-8", gz=False):
    data = text.encode(enc)
    if gz:
        buf = io.BytesIO()
        with gzip.GzipFile(fileobj=buf, mode="wb", mtime=0) as f:
            f.write(data)
        data = buf.getvalue()
    return data


def encodable(tb, enc):
    try:
        for s in tb:
            for t in s["tokens"]:
                for f in t:
                    f.encode(enc)
            for c in model.constituents(s["root"]):
                c[0].encode(enc)
                c[1].encode(enc)
    except UnicodeEncodeError:
        return False
    return True


# ---------------------------------------------------------------------------------- export
def _export_tabs(length):
    return "\t\t\t" if length < 8 else ("\t\t" if length < 16 else "\t")


def enc_export(tb, rng, four=False):
    style = rng.choice(["canonical", "tab", "space", "mixed"])
    numbering = rng.choice(["post", "level", "sparse"])
    header = rng.random() < 0.4
    secedges = rng.random() < 0.3
    comments = rng.random() < 0.3
    bos_extra = rng.random() < 0.4
    blank = rng.random() < 0.3
    out = []
    if header:
        out.append("%% generated test corpus\n")
        out.append("#FORMAT %d\n" % (4 if four else 3))
        out.append("#BOT ORIGIN\n0\tXX\tno origin\n#EOT ORIGIN\n")
        out.append("#BOT EDITOR\n0\ted\n#EOT EDITOR\n")
        if rng.random() < 0.5:
            out.append("#BOT WORDTAG\n0\tNN\tN\tnoun\n#EOT WORDTAG\n")

    def sep():
        if style == "tab":
            return "\t"
        if style == "space":
            return " " * rng.randint(1, 3)
        return rng.choice(["\t", " ", "\t\t", " \t", "  "])

    for s in tb:
        cons = model.constituents(s["root"])[1:]
        # numbering with children below their parent
        if numbering == "level":
            order = sorted(cons, key=lambda c: (model.depth(c), model.leftmost(c)))
        else:
            order = []

            def post(n):
                if isinstance(n, int):
                    return
                for c in n[2]:
                    post(c)
                order.append(n)
            for c in s["root"][2]:
                post(c)
        if numbering == "sparse" and len(order) < 200:
            nums = sorted(rng.sample(range(500, 1000), len(order)))
        else:
            nums = list(range(500, 500 + len(order)))
        num_of = {}
        for c, nmb in zip(order, nums):
            num_of[id(c)] = nmb
        parent_of_tok = {}
        parent_of_con = {}

        def walk(n, pnum):
            for c in n[2]:
                if isinstance(c, int):
                    parent_of_tok[c] = pnum
                else:
                    parent_of_con[id(c)] = pnum
                    walk(c, num_of[id(c)])
        walk(s["root"], 0)
        bos = "#BOS %d" % s["sid"]
        if bos_extra:
            bos += " %d %d %d" % (rng.randint(0, 9), rng.randint(1000, 99999), rng.randint(0, 3))
            if comments and rng.random() < 0.5:
                bos += " %% sentence comment"
        out.append(bos + "\n")
        lines = []
        for i, t in enumerate(s["tokens"]):
            fields = [t[0]] + ([t[2]] if four else []) + [t[1], t[3], t[4],
                                                         "%d" % parent_of_tok[i + 1]]
            lines.append(fields)
        for c, nmb in sorted(zip(order, nums), key=lambda x: x[1]):
            fields = ["#%d" % nmb] + (["--"] if four else []) + [c[0], "--", c[1],
                                                               "%d" % parent_of_con[id(c)]]
            lines.append(fields)
        for fields in lines:
            if style == "canonical":
                w = fields[0]
                line = w + _export_tabs(len(w))
                rest = fields[1:]
                if four:
                    line += rest[0] + _export_tabs(len(rest[0]))
                    rest = rest[1:]
                line += rest[0] + "\t" + rest[1] + _export_tabs(len(rest[1]) + 8) \
                    + rest[2] + "\t" + rest[3]
            else:
                line = fields[0]
                for f in fields[1:]:
                    line += sep() + f
            if secedges and nums and rng.random() < 0.3:
                line += (sep() if style != "canonical" else "\t") + "SE" + \
                    (sep() if style != "canonical" else "\t") + "%d" % rng.choice(nums)
            if comments and rng.random() < 0.2:
                line += " %% a comment"
            out.append(line + "\n")
        out.append("#EOS %d\n" % s["sid"])
        if blank and rng.random() < 0.5:
            out.append("\n")
    return "".join(out)


_NT = re.compile(r"#\d{3}$")


def dec_export(text, four):
    sents = []
    cur = None
    for line in text.split("\n"):
        s = line.strip()
        if cur is None:
            if s.startswith("#BOS"):
                parts = s.split()
                if len(parts) < 2 or not parts[1].lstrip("-").isdigit():
                    raise DecodeError("bad #BOS line")
                cur = (int(parts[1]), [])
        elif s.startswith("#EOS"):
            sents.append(_export_build(cur[0], cur[1], four))
            cur = None
        elif re.match(r"#BOS\s+-?\d+(\s|$)", s):
            # a sentence header; a *word* that merely begins with #BOS is a token line
            raise DecodeError("#BOS inside a sentence")
        else:
            cur[1].append(s)
    if cur is not None:
        raise DecodeError("sentence without #EOS")
    return sents


def _export_build(sid, lines, four):
    toks = []
    nodes = {}
    kids = {}
    need = 6 if four else 5
    for ln in lines:
        f = ln.split()
        if len(f) < need:
            raise DecodeError("too few fields in export line: %r" % ln)
        word = f[0]
        lemma = f[1] if four else None
        pos, morph, edge, parent = f[need - 4:need]
        if not parent.isdigit():
            raise DecodeError("parent field is not a number: %r" % ln)
        parent = int(parent)
        if _NT.match(word):
            num = int(word[1:])
            if num < 500:
                raise DecodeError("non-terminal numbered below 500")
            if num in nodes:
                raise DecodeError("node number used twice")
            nodes[num] = [pos, edge, []]
            key = ("c", num)
        else:
            toks.append([word, pos, lemma, morph, edge])
            key = ("t", len(toks))
        kids.setdefault(parent, []).append(key)
    nodes[0] = [model.ROOT, "--", []]
    used = set()

    def build(num, trail):
        if num in trail:
            raise DecodeError("cycle in export parents")
        node = nodes[num]
        for kind, k in kids.get(num, []):
            if kind == "t":
                node[2].append(k)
            else:
                used.add(k)
                node[2].append(build(k, trail | set([num])))
        if not node[2]:
            raise DecodeError("non-terminal #%d without children" % num)
        return node
    for p in kids:
        if p not in nodes:
            raise DecodeError("parent %d is not a node of the sentence" % p)
    if not toks:
        raise DecodeError("sentence without tokens")
    root = build(0, set())
    if used != set(n for n in nodes if n != 0):
        raise DecodeError("unattached non-terminal")
    return {"sid": sid, "tokens": toks, "root": model.sort_children(root)}


# ---------------------------------------------------------------------------------- brackets
def _bracket_ws(rng, style, kind):
    """Whitespace at one of the positions where the bracket format allows it.
    kind: 'open' (after a left bracket), 'sep' (between POS and word, mandatory),
    'child' (before a child), 'close' (before a right bracket)."""
    if style == "tight":
        return " " if kind == "sep" else ""
    if style in ("line", "ptb"):
        return " " if kind in ("sep", "child") else ""
    if kind != "sep" and rng.random() < 0.35:
        return ""
    return rng.choice([" ", "  ", "\n", "\t", " \n  ", "\r\n", "\n\n "])


def enc_brackets(tb, rng, gf=False, emptyroot=None, disco=False, emptypos=False):
    """Bracketed trees.  Only for continuous treebanks unless disco.  With emptypos, tokens
    whose POS is 'EMPTY' are written as (word)."""
    style = rng.choice(["line", "tight"]) if disco else \
        rng.choice(["line", "tight", "ptb", "loose"])
    if emptyroot is None:
        emptyroot = rng.random() < 0.4
    # discobrackets: one tree per line, but the line may be indented (the reader lexes
    # "any kind of indentation") and blank lines may separate the trees
    indent = disco and rng.random() < 0.25
    out = []

    def lab(label, edge):
        if gf and edge not in (None, "--"):
            return label + "-" + edge
        return label

    def node(s, n, depth):
        toks = s["tokens"]
        if isinstance(n, int):
            t = toks[n - 1]
            word = str(n) if disco else t[0]
            if emptypos and t[1] == "EMPTY":
                return "(" + _bracket_ws(rng, style, "open") + word + ")"
            return "(" + _bracket_ws(rng, style, "open") + lab(t[1], t[4]) \
                + _bracket_ws(rng, style, "sep") + word \
                + _bracket_ws(rng, style, "close") + ")"
        res = "(" + _bracket_ws(rng, style, "open") + lab(n[0], n[1])
        return res + kids(s, n, depth)

    def kids(s, n, depth):
        res = ""
        for c in n[2]:
            if style == "ptb":
                res += "\n" + "  " * (depth + 1)
            else:
                res += _bracket_ws(rng, style, "child")
            res += node(s, c, depth + 1)
        return res + _bracket_ws(rng, style, "close") + ")"

    for s in tb:
        r = s["root"]
        if emptyroot:
            res = "(" + kids(s, r, 0)
            if style == "line":
                res = "( " + res[2:] if res.startswith("( ") else res
        else:
            res = node(s, r, 0)
        if disco:
            res += "\t" + " ".join(t[0] for t in s["tokens"])
            if indent and rng.random() < 0.6:
                res = rng.choice([" ", "  ", "\t", "    "]) + res
            if indent and rng.random() < 0.2:
                out.append(rng.choice(["\n", "  \n"]))
        out.append(res + "\n")
        if not disco and rng.random() < 0.2:
            out.append("\n")
    text = "".join(out)
    if text.endswith("\n") and not text.endswith("\n\n") and rng.random() < 0.12:
        text = text[:-1]               # the last line of a file need not end in a newline
    return text


def dec_brackets(text, disco=False):
    """Recursive-descent decoder of bracketed trees.  Token numbering: file order (or the
    index written in place of the word for discobrackets)."""
    pos = [0]
    n = len(text)
    WS = " \t\n\r\x0b\x0c"

    def skip():
        while pos[0] < n and text[pos[0]] in WS:
            pos[0] += 1

    def tok():
        st = pos[0]
        while pos[0] < n and text[pos[0]] not in WS and text[pos[0]] not in "()":
            pos[0] += 1
        return text[st:pos[0]]

    def node(toks, top):
        assert text[pos[0]] == "("
        pos[0] += 1
        skip()
        if pos[0] >= n:
            raise DecodeError("unexpected end of input")
        if text[pos[0]] == "(":
            if not top:
                raise DecodeError("empty label below the root")
            label = model.ROOT
        elif text[pos[0]] == ")":
            raise DecodeError("empty group")
        else:
            label = tok()
            skip()
        if pos[0] >= n:
            raise DecodeError("unexpected end of input")
        if text[pos[0]] == "(":
            kids = []
            while True:
                skip()
                if pos[0] >= n:
                    raise DecodeError("unexpected end of input")
                if text[pos[0]] == "(":
                    kids.append(node(toks, False))
                elif text[pos[0]] == ")":
                    pos[0] += 1
                    break
                else:
                    raise DecodeError("token where a bracket is required")
            return [label, None, kids]
        if text[pos[0]] == ")":
            raise DecodeError("label without content")
        word = tok()
        skip()
        if pos[0] >= n or text[pos[0]] != ")":
            raise DecodeError("expected ) after word")
        pos[0] += 1
        toks.append([word, label, None, None, None])
        return len(toks)

    sents = []
    while True:
        if disco:
            while pos[0] < n and text[pos[0]] in "\n\r \t":
                pos[0] += 1
        else:
            skip()
        if pos[0] >= n:
            break
        if text[pos[0]] != "(":
            raise DecodeError("material outside a bracket group")
        toks = []
        root = node(toks, True)
        if isinstance(root, int):
            raise DecodeError("top-level group is a pre-terminal")
        if disco:
            if pos[0] >= n or text[pos[0]] != "\t":
                raise DecodeError("no tab after discobracket tree")
            pos[0] += 1
            end = text.find("\n", pos[0])
            if end < 0:
                end = n                # last line of the file without a final newline
            words = text[pos[0]:end].split(" ")
            pos[0] = end + 1
            idxs = []
            for t in toks:
                if not t[0].isdigit():
                    raise DecodeError("discobracket terminal is not an index")
                idxs.append(int(t[0]))
            if sorted(idxs) != list(range(1, len(words) + 1)):
                raise DecodeError("discobracket indices are not 1..n")
            remap = dict((i + 1, idxs[i]) for i in range(len(idxs)))
            newtoks = [None] * len(words)
            for i, t in enumerate(toks):
                newtoks[idxs[i] - 1] = [words[idxs[i] - 1], t[1], None, None, None]

            def ren(nd):
                nd[2] = [remap[c] if isinstance(c, int) else ren(c) for c in nd[2]]
                return nd
            root = ren(root)
            toks = newtoks
        if root[0] != model.ROOT:
            pass
        sents.append({"sid": None, "tokens": toks, "root": model.sort_children(root)})
    return sents


# ---------------------------------------------------------------------------------- tigerxml
def _xml_attr(v):
    v = v.replace("&", "&amp;").replace("<", "&lt;").replace(">", "&gt;")
    if '"' in v and "'" not in v:
        return "'" + v + "'"
    return '"' + v.replace('"', "&quot;") + '"'


def enc_tigerxml(tb, rng, enc="utf-8"):
    decl_enc = {"utf-8": "UTF-8", "latin-1": "ISO-8859-1", "utf-16": "UTF-16"}[enc]
    idstyle = rng.choice(["s%d", "%d", "c1_s%d", "s%d"])
    permute = rng.random() < 0.6
    head = rng.random() < 0.5
    implicit_root = rng.random() < 0.5
    pretty = rng.random() < 0.6
    nl = "\n" if pretty else ""
    out = ['<?xml version="1.0" encoding="%s"?>%s' % (decl_enc, "\n")]
    out.append('<corpus id="test">' + nl)
    if head:
        out.append('<head><meta><name>test</name><format>x</format></meta>'
                   '<annotation><feature name="word" domain="T"/>'
                   '<edgelabel><value name="HD">head</value></edgelabel>'
                   '</annotation></head>' + nl)
    out.append("<body>" + nl)
    for s in tb:
        sid = idstyle % s["sid"]
        pre = rng.choice([sid + "_", "t", "n" + sid + "."])
        cons = model.constituents(s["root"])
        root = s["root"]
        explicit = True
        if implicit_root and len(root[2]) == 1:
            c0 = root[2][0]
            edge0 = s["tokens"][c0 - 1][4] if isinstance(c0, int) else c0[1]
            if edge0 == "--":
                explicit = False
        ids = {}
        num = 500
        for c in cons:
            if c is root and not explicit:
                continue
            ids[id(c)] = "%s%d" % (pre, num)
            num += 1
        rootid = ids.get(id(root))
        if rootid is None:
            c0 = root[2][0]
            rootid = "%s%d" % (pre, c0) if isinstance(c0, int) else ids[id(c0)]
        out.append('<s id="%s">%s' % (sid, nl))
        gattrs = ['root="%s"' % rootid]
        if rng.random() < 0.3:
            gattrs.append('discontinuous="true"')
        out.append("<graph %s>%s" % (" ".join(gattrs), nl))
        out.append("<terminals>" + nl)
        for i, t in enumerate(s["tokens"]):
            attrs = [("id", "%s%d" % (pre, i + 1)), ("word", t[0]), ("lemma", t[2]),
                     ("pos", t[1]), ("morph", t[3])]
            if rng.random() < 0.2:
                attrs.append(("case", "nom"))
            if permute:
                rng.shuffle(attrs)
            out.append("<t " + " ".join("%s=%s" % (k, _xml_attr(v)) for k, v in attrs)
                       + (" />" if rng.random() < 0.5 else "/>") + nl)
        out.append("</terminals>" + nl)
        nts = [c for c in cons if id(c) in ids]
        if permute:
            rng.shuffle(nts)
        if nts:
            out.append("<nonterminals>" + nl)
            for c in nts:
                attrs = [("id", ids[id(c)]), ("cat", c[0])]
                if permute:
                    rng.shuffle(attrs)
                out.append("<nt " + " ".join("%s=%s" % (k, _xml_attr(v)) for k, v in attrs)
                           + ">" + nl)
                kids = list(c[2])
                if permute:
                    rng.shuffle(kids)
                for k in kids:
                    if isinstance(k, int):
                        eattrs = [("label", s["tokens"][k - 1][4]),
                                  ("idref", "%s%d" % (pre, k))]
                    else:
                        eattrs = [("label", k[1]), ("idref", ids[id(k)])]
                    if permute:
                        rng.shuffle(eattrs)
                    out.append("<edge " + " ".join("%s=%s" % (a, _xml_attr(v))
                                                    for a, v in eattrs) + "/>" + nl)
                if rng.random() < 0.15 and len(s["tokens"]) > 1:
                    out.append('<secedge label="SE" idref="%s%d"/>%s'
                               % (pre, rng.randint(1, len(s["tokens"])), nl))
                out.append("</nt>" + nl)
            out.append("</nonterminals>" + nl)
        else:
            out.append("<nonterminals/>" + nl)
        out.append("</graph>" + nl)
        if rng.random() < 0.1:
            out.append("<matches/>" + nl)
        out.append("</s>" + nl)
    out.append("</body>" + nl + "</corpus>" + nl)
    return "".join(out)


_DIGITS = re.compile(r"\d+")


def dec_tigerxml(data):
    """data: bytes of a TIGER-XML document."""
    try:
        root = ET.fromstring(data)
    except ET.ParseError as e:
        raise DecodeError("not well-formed XML: %s" % e)
    body = root.find("body")
    if root.tag != "corpus" or body is None:
        raise DecodeError("no corpus/body")
    sents = []
    for s in body.findall("s"):
        xid = s.get("id")
        nums = _DIGITS.findall(xid or "")
        if not nums:
            raise DecodeError("sentence id without a number")
        g = s.find("graph")
        if g is None or g.find("terminals") is None:
            raise DecodeError("no graph/terminals")
        toks = []
        byid = {}
        for t in g.find("terminals").findall("t"):
            toks.append([t.get("word"), t.get("pos"), t.get("lemma"), t.get("morph"), "--"])
            if t.get("id") in byid:
                raise DecodeError("duplicate id")
            byid[t.get("id")] = len(toks)
        nts = {}
        ntel = g.find("nonterminals")
        for nt in (ntel.findall("nt") if ntel is not None else []):
            if nt.get("id") in byid or nt.get("id") in nts:
                raise DecodeError("duplicate id")
            nts[nt.get("id")] = [nt.get("cat"), "--", []]
        has_parent = set()
        for nt in (ntel.findall("nt") if ntel is not None else []):
            node = nts[nt.get("id")]
            for e in nt.findall("edge"):
                ref = e.get("idref")
                if ref in has_parent:
                    raise DecodeError("two incoming edges")
                has_parent.add(ref)
                if ref in byid:
                    toks[byid[ref] - 1][4] = e.get("label")
                    node[2].append(byid[ref])
                elif ref in nts:
                    nts[ref][1] = e.get("label")
                    node[2].append(nts[ref])
                else:
                    raise DecodeError("dangling idref")
        roots = [k for k in list(byid) + list(nts) if k not in has_parent]
        if len(roots) != 1:
            raise DecodeError("%d roots" % len(roots))
        r = roots[0]
        top = nts[r] if r in nts else byid[r]
        if isinstance(top, int) or top[0] != model.ROOT:
            top = [model.ROOT, "--", [top]]
        for c in model.constituents(top):
            if not c[2]:
                raise DecodeError("nt without edges")
        try:
            ts = model.tokset(top)
        except RecursionError:
            raise DecodeError("cycle")
        if ts != list(range(1, len(toks) + 1)):
            raise DecodeError("terminals not all attached exactly once")
        sents.append({"sid": int(nums[-1]), "tokens": toks, "root": model.sort_children(top)})
    return sents


# ---------------------------------------------------------------------------------- terminals
def dec_terminals(text, pos=False, one=False):
    sents = []
    if one:
        cur = []
        for line in text.split("\n")[:-1]:
            if line == "":
                sents.append(cur)
                cur = []
            else:
                cur.append(line.split("\t") if pos else [line])
        if cur:
            raise DecodeError("unterminated sentence in terminals_one output")
        return sents
    lines = text.split("\n")
    if lines[-1] != "":
        raise DecodeError("terminals output does not end with a newline")
    for line in lines[:-1]:
        parts = line.split(" ")
        if parts[-1] != "":
            raise DecodeError("missing trailing blank")
        parts = parts[:-1]
        if pos:
            sents.append([p.rsplit("/", 1) for p in parts])
        else:
            sents.append([[p] for p in parts])
    return sents


# ---------------------------------------------------------------------------------- dispatch
def render(tb, codec, rng, enc="utf-8", gz=False, **kw):
    """Model treebank -> bytes of a source file."""
    if codec == "export3":
        text = enc_export(tb, rng, four=False)
    elif codec == "export4":
        text = enc_export(tb, rng, four=True)
    elif codec == "brackets":
        text = enc_brackets(tb, rng, **kw)
    elif codec == "discobrackets":
        text = enc_brackets(tb, rng, disco=True, **kw)
    elif codec == "tigerxml":
        text = enc_tigerxml(tb, rng, enc=enc)
    else:
        raise KeyError(codec)
    return to_bytes(text, enc, gz)
