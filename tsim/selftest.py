"""Self-tests of the machinery: setup check, determinism, codecs, sensitivity (see DESIGN §8)."""
import hashlib
import json
import os
import random
import sys
import time

from . import props


def setup(repo):
    """MANIFEST.setup_cmd: nothing is compiled; verify the pieces are present and work."""
    ok = True
    if sys.version_info < (3, 8):
        print('setup: python too old')
        ok = False
    for d in ('evidence', 'replays'):
        os.makedirs(os.path.join(os.path.dirname(os.path.dirname(os.path.abspath(__file__))),
                                 d), exist_ok=True)
    if not os.path.isdir(os.path.join(repo, 'trees')):
        print('setup: no trees/ under %s' % repo)
        ok = False
    rc = codecs(200)
    if rc != 0:
        ok = False
    from . import master
    try:
        w = master.Worker(repo, (0, 1))
        w.close()
        print('setup: worker starts, repository imports from %s' % repo)
    except Exception as e:
        print('setup: worker failed: %r' % (e,))
        ok = False
    print('setup: %s' % ('ok' if ok else 'FAILED'))
    return 0 if ok else 2


def codecs(n=2000):
    """Round trip of the reference encoders through the reference decoders."""
    from . import model
    from . import refcodec as rc
    bad = 0
    for seed in range(n):
        rng = random.Random(seed)
        k = model.swarm_knobs(rng)
        tb = model.gen_treebank(rng, k)
        for four in (False, True):
            t = rc.enc_export(tb, random.Random(seed), four=four)
            d = rc.dec_export(t, four)
            if [model.canon(s, lemma=four) for s in tb] != [model.canon(s, lemma=four) for s in d]:
                bad += 1
        t = rc.enc_tigerxml(tb, random.Random(seed))
        d = rc.dec_tigerxml(t.encode('utf-8'))
        if [model.canon(s) for s in tb] != [model.canon(s) for s in d]:
            bad += 1
        f = dict(lemma=False, morph=False, edge=False, sid=False)
        t = rc.enc_brackets(tb, random.Random(seed), disco=True)
        d = rc.dec_brackets(t, disco=True)
        if [model.canon(s, **f) for s in tb] != [model.canon(s, **f) for s in d]:
            bad += 1
        if all(model.is_continuous(s) for s in tb):
            t = rc.enc_brackets(tb, random.Random(seed))
            d = rc.dec_brackets(t)
            if [model.canon(s, **f) for s in tb] != [model.canon(s, **f) for s in d]:
                bad += 1
    print('selftest codecs: %d treebanks, %d round-trip failures' % (n, bad))
    return 0 if bad == 0 else 2


def _digest(obj):
    return hashlib.sha1(json.dumps(obj, sort_keys=True, default=repr).encode()).hexdigest()


def determinism(prop_names, seed, repo, jobs, count):
    """Every scenario executed twice in different workers (and, for the second pass, with a
    different worker count); the digests of the complete results must agree."""
    from . import master
    rc = 0
    for prop in prop_names:
        digs = []
        for rnd, j in enumerate((jobs, max(1, jobs // 4))):
            b = master.Batch(prop, 'quick', seed, repo, j, count=count)
            b.run()
            if b.errors:
                print('HARNESS-ERROR selftest determinism %s: %s' % (prop, b.errors[0][-300:]))
                return 2
            digs.append(dict((i, _digest(b.results[i])) for i in sorted(b.results)))
        # third pass: worker interpreters under another PYTHONHASHSEED
        b = master.Batch(prop, 'quick', seed, repo, jobs, count=count)
        b.hashseeds = (4242 + seed, b.hashseeds[1])
        orig = b.make_scenario

        def mk(i, orig=orig, hs=list(master.hashseed_pair(seed))):
            sc = orig(i)
            sc['hashseeds'] = hs          # keep the scenario itself identical
            return sc
        b.make_scenario = mk
        b.run()
        if b.errors:
            print('HARNESS-ERROR selftest determinism %s: %s' % (prop, b.errors[0][-300:]))
            return 2
        digs.append(dict((i, _digest(b.results[i])) for i in sorted(b.results)))
        diff = [i for i in digs[0] if digs[0][i] != digs[1].get(i) or digs[0][i] != digs[2].get(i)]
        # scenario generation under another hash seed, in a fresh interpreter
        gen = _gen_digest(prop, seed, count, '0') == _gen_digest(prop, seed, count, '98765')
        print('selftest determinism %s: %d scenarios x3 (jobs %d / %d / %d with worker '
              'PYTHONHASHSEED %d), %d diverged; generation under two hash seeds %s'
              % (prop, len(digs[0]), jobs, max(1, jobs // 4), jobs, b.hashseeds[0], len(diff),
                 'identical' if gen else 'DIFFERS'))
        if diff or not gen:
            print('  diverging scenario indices: %s' % diff[:10])
            rc = 2
    return rc


def _gen_digest(prop, seed, count, hashseed):
    import subprocess
    here = os.path.dirname(os.path.dirname(os.path.abspath(__file__)))
    code = ("import sys, json, hashlib; sys.path.insert(0, %r); from tsim import master, props;"
            "m = props.get(%r); h = hashlib.sha1();"
            "[h.update(json.dumps(m.generate(master.scenario_seed(%d, %r, i), 'quick'), "
            "sort_keys=True, default=repr).encode()) for i in range(%d)]; print(h.hexdigest())"
            % (here, prop, seed, prop, count))
    env = dict(os.environ, PYTHONHASHSEED=hashseed, PYTHONDONTWRITEBYTECODE='1')
    return subprocess.run([sys.executable, '-c', code], capture_output=True, text=True,
                          env=env).stdout.strip()


def main(args, seed, repo, jobs, tier):
    what = args[0] if args else 'all'
    rc = 0
    if what in ('codecs', 'all'):
        rc = max(rc, codecs(500 if tier == 'quick' else 5000))
    if what in ('determinism', 'all'):
        names = [a.upper() for a in args[1:]] or props.CLAIMED
        names = [n for n in names if _built(n)]
        rc = max(rc, determinism(names, seed, repo, jobs, 200 if tier == 'quick' else 2000))
    if what == 'soundness':
        from . import mutants
        rc = max(rc, mutants.run_benign(args[1:], seed, repo, jobs))
    if what == 'sensitivity':
        from . import mutants
        rc = max(rc, mutants.run(args[1:], seed, repo, jobs))
    return rc


def _built(name):
    try:
        props.get(name)
        return True
    except ImportError:
        return False
