"""Model treebanks (no repository imports).

A sentence is a dict
    {"sid": int, "tokens": [[word, pos, lemma, morph, edge], ...], "root": CONST}
    CONST = [label, edge, [child, ...]]      child = CONST | int (1-based token index)
Children of every constituent are kept sorted by their leftmost token.  The root label is
"VROOT" unless stated otherwise.  Everything is JSON-able so that scenarios can be stored,
shrunk and re-rendered.
"""
import copy

ROOT = "VROOT"

# ---- alphabets ---------------------------------------------------------------------------
LABELS = ["S", "NP", "VP", "PP", "AP", "CS", "CNP", "AVP", "SBAR", "ADJP"]
# categories that have special head rules in the presets (negra / ptb)
LABELS_HEADRULES = ["CO", "DL", "ISU", "QL", "CH", "MPN", "NM", "CAC", "MTA", "CCP", "AA",
                    "PRN", "INTJ", "FRAG", "NX", "WHADVP", "UCP", "QP", "LST", "X"]
LABELS_SPECIAL = ["X&Y", "A<B>", "Q\"", "R'S", "Ü"]
EDGES_SPECIAL = ["E&", "<", "\""]
POS = ["NN", "VVFIN", "ART", "ADJA", "APPR", "ADV", "PRELS", "NE"]
EDGES = ["HD", "NK", "SB", "OA", "MO", "--", "OC", "CJ"]
MORPH = ["--", "Nom.Sg.Masc", "3.Sg.Pres.Ind", "Akk.Pl"]
W_ASCII = ["der", "Hund", "bellt", "laut", "Haus", "und", "a", "b", "sieht", "x1", "Zug"]
W_LATIN1 = ["Käse", "über", "façade", "Straße", "Ärger"]
W_WIDE = ["łódź", "中文", "\U0001d518ber", "\U0001f600x", "αβ"]
W_XML = ["a&b", "<tag>", "\"q\"", "it's", "x>y", "&amp;", "<"]
W_PAREN = ["(", ")", "-LRB-", "-RRB-", "[", "]", "{", "}", "a(b", "-LSB-", "(s)", "[x]",
           "{a}(b)", "f(x)[0]",
           "-(-", "-]-", "-}-"]       # a bracket between dashes: replacement order matters
W_PUNCT = [",", ".", "?", "!", ";", ":", "--", "-", "/", "..."]
W_PAIR = ["\"", "'", "''", "`", "``"]
W_HASH = ["#5021", "#12", "#", "#abc", "#1234x", "##", "#500th",
          # words that begin like the keywords / comment marker of the export format
          "#BOS", "#BOSTON", "%%", "%%-Punkte", "%", "#FORMAT", "#BOS1",
          # words that look like positions / node numbers
          "0", "7", "500", "999", "1000"]
W_PARENTOK = ["(", ")"]           # stand-alone bracket tokens
W_USPACE = ["10\u00a0000", "a\u2009b", "\u00a0", "x\u3000y"]      # not whitespace for the formats
W_LEN = ["abcdefg", "abcdefgh", "abcdefghijklmno", "abcdefghijklmnop", "abcdefghijklmnopq",
         "abcdefghijklmnopqrstuvw", "abcdefghijklmnopqrstuvwx", "abcdefghijklmnopqrstuvwxy",
         "http://example.org/a/very/long/token/of/forty-eight"]
MORPH_LONG = ["Nom.Sg.Masc.Def.", "3.Sg.Pres.Ind.Akt.Refl", "abcdefghijklmnopqrstuvwx"]
P_PUNCT = ["$,", "$.", ":", "PUNCT"]
P_PAREN = ["$(", "$(", "$["]


def tokset(node):
    if isinstance(node, int):
        return [node]
    out = []
    for c in node[2]:
        out.extend(tokset(c))
    return sorted(out)


def leftmost(node):
    return node if isinstance(node, int) else min(tokset(node))


def sort_children(node):
    if isinstance(node, int):
        return node
    node[2] = sorted([sort_children(c) for c in node[2]], key=leftmost)
    return node


def constituents(root):
    """Preorder list of constituent nodes (root included)."""
    out = []

    def rec(n):
        if isinstance(n, int):
            return
        out.append(n)
        for c in n[2]:
            rec(c)
    rec(root)
    return out


def runs(nums):
    """Maximal runs of consecutive integers of a sorted list."""
    out = []
    for x in nums:
        if out and out[-1][-1] + 1 == x:
            out[-1].append(x)
        else:
            out.append([x])
    return out


def gap_degree_node(node):
    return len(runs(tokset(node))) - 1


def gap_degree(sent):
    return max([gap_degree_node(c) for c in constituents(sent['root'])] or [0])


def is_continuous(sent):
    return gap_degree(sent) == 0


def n_constituents(sent):
    return len(constituents(sent['root']))


def depth(node):
    if isinstance(node, int):
        return 0
    return 1 + max(depth(c) for c in node[2])


# ---- generation --------------------------------------------------------------------------
def default_knobs():
    return {"n_min": 1, "n_max": 8, "disc": 0.25, "unary": 0.15, "arity": 4,
            "labels": LABELS[:4], "pos": POS[:5], "edges": EDGES, "morph": MORPH[:2],
            "words": ["ascii"], "punct": 0.1, "pair": 0.0, "lemma": True,
            "flat": 0.1}


def swarm_knobs(rng, tier="quick", allow=("ascii", "latin1", "wide", "xml", "len", "hash"),
                continuous=False):
    """Per-scenario workload knobs (swarm style)."""
    k = default_knobs()
    k["n_max"] = rng.choice([1, 2, 3, 5, 8, 10] if tier == "quick" else [1, 2, 4, 8, 12, 16])
    k["n_min"] = 1 if rng.random() < 0.7 else min(3, k["n_max"])
    k["disc"] = 0.0 if continuous else rng.choice([0.0, 0.15, 0.3, 0.6])
    k["unary"] = rng.choice([0.0, 0.1, 0.3])
    k["arity"] = rng.choice([2, 3, 4, 6])
    nlab = rng.choice([1, 2, 3, 8])
    k["labels"] = LABELS[:nlab]
    if "xml" in allow and rng.random() < 0.15:
        k["labels"] = k["labels"] + [rng.choice(LABELS_SPECIAL[:4])]
        k["special_labels"] = True
    k["pos"] = POS[:rng.choice([1, 2, 4, 8])]
    k["edges"] = rng.choice([EDGES, ["--"], ["HD", "NK", "--"], ["SB", "OA", "MO"]])
    if "xml" in allow and rng.random() < 0.1:
        k["edges"] = k["edges"] + [rng.choice(EDGES_SPECIAL)]
    k["morph"] = MORPH[:rng.choice([1, 2, 4])]
    if "len" in allow and rng.random() < 0.15:
        k["morph"] = k["morph"] + [rng.choice(MORPH_LONG)]
    classes = ["ascii"]
    for c in allow:
        if c != "ascii" and rng.random() < 0.3:
            classes.append(c)
    k["words"] = classes
    k["vocab"] = rng.choice([2, 4, 100])
    k["punct"] = rng.choice([0.0, 0.1, 0.3])
    k["pair"] = rng.choice([0.0, 0.0, 0.15])
    k["flat"] = rng.choice([0.0, 0.1, 0.4])
    return k


def gen_word(rng, k):
    r = rng.random()
    # pos_paren: the NeGra/TIGER tags of brackets, quotes and dashes contain a parenthesis
    ppos = P_PUNCT + (P_PAREN if k.get("pos_paren") else [])
    if r < k.get("punct", 0):
        return rng.choice(W_PUNCT), rng.choice(ppos)
    if r < k.get("punct", 0) + k.get("pair", 0):
        return rng.choice(W_PAIR), rng.choice(ppos)
    cls = rng.choice(k["words"])
    pool = {"ascii": W_ASCII, "latin1": W_LATIN1, "wide": W_WIDE, "xml": W_XML,
            "paren": W_PAREN, "len": W_LEN, "hash": W_HASH, "uspace": W_USPACE, "parentok": W_PARENTOK}[cls]
    pool = pool[:max(1, k.get("vocab", 100))]
    return rng.choice(pool), rng.choice(k["pos"])


def gen_sentence(rng, k, sid=1):
    n = rng.randint(k["n_min"], max(k["n_min"], k["n_max"]))
    tokens = []
    for _ in range(n):
        w, p = gen_word(rng, k)
        lemma = (w.lower() if rng.random() < 0.7 else "--") if k.get("lemma", True) else "--"
        tokens.append([w, p, lemma, rng.choice(k["morph"]), rng.choice(k["edges"])])
    items = list(range(1, n + 1))
    if rng.random() >= k.get("flat", 0.1):
        budget = rng.randint(1, 2 * n + 1)
        chain = 0
        for _ in range(budget):
            items.sort(key=leftmost)
            r = rng.random()
            if r < k["unary"] and chain < 3:
                grp = [rng.randrange(len(items))]
                chain += 1
            else:
                chain = 0
                if len(items) < 2:
                    if rng.random() < 0.5:
                        break
                    continue
                size = rng.randint(2, min(k["arity"], len(items)))
                if rng.random() < k["disc"]:
                    grp = sorted(rng.sample(range(len(items)), size))
                else:
                    start = rng.randrange(0, len(items) - size + 1)
                    grp = list(range(start, start + size))
            kids = [items[i] for i in grp]
            node = [rng.choice(k["labels"]), rng.choice(k["edges"]),
                    sorted(kids, key=leftmost)]
            items = [it for i, it in enumerate(items) if i not in grp] + [node]
    root = [ROOT, "--", sorted(items, key=leftmost)]
    return {"sid": sid, "tokens": tokens, "root": root}


def gen_treebank(rng, k, nsent=None, sid_pattern=None):
    if nsent is None:
        nsent = rng.choice([1, 1, 2, 3, 4, 6])
    pat = sid_pattern or rng.choice(["consecutive", "consecutive", "sparse", "offset"])
    sid = 1 if pat != "offset" else rng.randint(2, 900)
    out = []
    for _ in range(nsent):
        out.append(gen_sentence(rng, k, sid))
        sid += 1 if pat != "sparse" else rng.randint(1, 40)
    return out


# ---- projections -------------------------------------------------------------------------
# which token fields a format carries (word, pos, lemma, morph, edge), constituent edge, sid
CAPS = {
    "export3":       {"lemma": False, "morph": True, "edge": True, "sid": True},
    "export4":       {"lemma": True, "morph": True, "edge": True, "sid": True},
    "tigerxml":      {"lemma": True, "morph": True, "edge": True, "sid": True},
    "brackets":      {"lemma": False, "morph": False, "edge": False, "sid": False},
    "discobrackets": {"lemma": False, "morph": False, "edge": False, "sid": False},
}


def canon(sent, lemma=True, morph=True, edge=True, sid=True, wordmap=None):
    """Canonical nested tuple of a sentence restricted to the given fields."""
    toks = sent["tokens"]
    wm = wordmap or (lambda x: x)

    def tok(i):
        t = toks[i - 1]
        return ("T", i, wm(t[0]), wm(t[1]),
                wm(t[2]) if lemma else None,
                wm(t[3]) if morph else None,
                wm(t[4]) if edge else None)

    def rec(n):
        if isinstance(n, int):
            return tok(n)
        kids = sorted(n[2], key=leftmost)
        return ("C", wm(n[0]), wm(n[1]) if edge else None, tuple(rec(c) for c in kids))
    return (sent["sid"] if sid else None, len(toks), rec(sent["root"]))


def clone(x):
    return copy.deepcopy(x)


def summary(sent):
    return {"n": len(sent["tokens"]), "const": n_constituents(sent),
            "gap": gap_degree(sent), "depth": depth(sent["root"])}


def big_sentence(rng, nconst, sid=1):
    """A shallow sentence with exactly nconst non-root constituents (export numbers them
    500..999): balanced binary merges plus unary nodes directly above tokens."""
    ntok = max(2, nconst // 2)
    tokens = [["w%d" % (i % 7), "NN", "--", "--", "--"] for i in range(ntok)]
    items = list(range(1, ntok + 1))
    made = 0
    unary_needed = max(0, nconst - (ntok - 1))
    # unary nodes above (some) tokens first
    for i in range(len(items)):
        if made < unary_needed:
            items[i] = [rng.choice(["NP", "VP"]), "--", [items[i]]]
            made += 1
    extra = unary_needed - made
    # balanced binary merges
    while len(items) > 1 and made < nconst:
        nxt = []
        i = 0
        while i < len(items):
            if i + 1 < len(items) and made < nconst:
                nxt.append([rng.choice(["NP", "VP", "S"]), "--", [items[i], items[i + 1]]])
                made += 1
                i += 2
            else:
                nxt.append(items[i])
                i += 1
        items = nxt
    for _ in range(max(0, nconst - made)):
        i = rng.randrange(len(items))
        items[i] = ["S", "--", [items[i]]]
    return {"sid": sid, "tokens": tokens, "root": [ROOT, "--", items]}


def twin_sentence(rng, k, sid=1, copies=None):
    """A sentence whose root has the same subtree several times side by side: the same rule
    occurs more than once in ONE tree, in the same vertical context."""
    k2 = dict(k)
    k2["n_min"], k2["n_max"], k2["disc"], k2["flat"] = 1, min(3, max(1, k.get("n_max", 3))), 0.0, 0.0
    base = gen_sentence(rng, k2, sid)
    n = len(base["tokens"])
    copies = copies or rng.choice([2, 2, 3])

    def shift(node, off):
        if isinstance(node, int):
            return node + off
        return [node[0], node[1], [shift(c, off) for c in node[2]]]
    tokens, kids = [], []
    for r in range(copies):
        tokens.extend(clone(base["tokens"]))
        kids.extend(shift(c, r * n) for c in base["root"][2])
    return {"sid": sid, "tokens": tokens, "root": [ROOT, "--", kids]}


def gap_twin(rng, sent, sid=None):
    """The same tokens under the same labels, but two tokens of different constituents have
    changed places in the tree: mostly the same bare rules as `sent` with other
    linearizations (and other fan-outs).  None if no discontinuous variant was found."""
    for _ in range(8):
        s = clone(sent)
        leaves = []

        def walk(n):
            for i, c in enumerate(n[2]):
                if isinstance(c, int):
                    leaves.append((n, i))
                else:
                    walk(c)
        walk(s["root"])
        if len(leaves) < 3:
            return None
        (a, i), (b, j) = rng.sample(leaves, 2)
        if a is b:
            continue
        a[2][i], b[2][j] = b[2][j], a[2][i]
        s["root"] = sort_children(s["root"])
        if not is_continuous(s) or not is_continuous(sent):
            if sid is not None:
                s["sid"] = sid
            return s
    return None


def add_twins(rng, tb, k, p=0.25):
    """With probability p append a twin sentence; half of the time the same sentence is also put
    first, so that its rules are already known when the twin sentence arrives."""
    if tb and rng.random() < p:
        s = twin_sentence(rng, k, sid=tb[-1]["sid"] + 1)
        tb.append(s)
        if rng.random() < 0.5:
            tb.insert(0, clone(s))
            for i, x in enumerate(tb):
                x["sid"] = i + 1
    return tb


def deep_sentence(rng, depth, sid=1):
    """A right-branching tree with a constituent `depth` levels below the root."""
    n = depth + 1
    tokens = [["w%d" % (i % 5), "NN", "--", "--", "--"] for i in range(n)]
    node = ["NP", "--", [n - 1, n]]
    for i in range(n - 2, 0, -1):
        node = [rng.choice(["S", "VP", "NP"]), "--", [i, node]]
    return {"sid": sid, "tokens": tokens, "root": [ROOT, "--", [node]]}


def comb_sentence(rng, fanout, sid=1):
    """Two constituents whose tokens alternate: each has `fanout` blocks."""
    n = 2 * fanout
    tokens = [["w%d" % (i % 3), "NN", "--", "--", "--"] for i in range(n)]
    a = ["NP", "--", list(range(1, n + 1, 2))]
    b = ["VP", "--", list(range(2, n + 1, 2))]
    return {"sid": sid, "tokens": tokens, "root": [ROOT, "--", [["S", "--", [a, b]]]]}


def token_tree(rng, k, sid=1):
    """A tree that consists of a single token (its root is the token)."""
    w, p = gen_word(rng, k)
    return {"sid": sid, "tokens": [[w, p, "--", "--", "--"]], "root": 1}


def shape_class(tb):
    """Coarse shape class of a treebank, for 'distinct shapes' counting."""
    if not tb:
        return "empty"
    n = max(len(s["tokens"]) for s in tb)
    g = max(gap_degree(s) for s in tb)
    un = any(len(c[2]) == 1 for s in tb for c in constituents(s["root"])) or \
        any(isinstance(s["root"], int) for s in tb)
    return "s%d-n%d-g%d-%s" % (min(len(tb), 4), min(n, 9), min(g, 3), "u" if un else "b")


# ---- shrinking helpers --------------------------------------------------------------------
def shrink_sentence(sent):
    """Yield strictly smaller variants of a sentence: delete a constituent (splice its
    children into the parent), delete a token, simplify strings."""
    # splice out one constituent
    cons = constituents(sent["root"])
    for target in cons[1:]:
        s2 = clone(sent)

        def rec(n):
            if isinstance(n, int):
                return [n]
            kids = []
            for c in n[2]:
                if not isinstance(c, int) and c == target:
                    kids.extend(c[2])
                else:
                    rec(c)
                    kids.append(c)
            n[2] = sorted(kids, key=leftmost)
            return n
        hit = [False]

        def rec2(n):
            if isinstance(n, int):
                return
            kids = []
            for c in n[2]:
                if (not hit[0]) and (not isinstance(c, int)) and c == target:
                    hit[0] = True
                    kids.extend(c[2])
                else:
                    kids.append(c)
            n[2] = sorted(kids, key=leftmost)
            for c in n[2]:
                rec2(c)
        rec2(s2["root"])
        if hit[0]:
            yield s2
    # delete one token
    n = len(sent["tokens"])
    if n > 1:
        for i in range(n, 0, -1):
            s2 = clone(sent)

            def drop(nd):
                kids = []
                for c in nd[2]:
                    if isinstance(c, int):
                        if c == i:
                            continue
                        kids.append(c - 1 if c > i else c)
                    else:
                        drop(c)
                        if c[2]:
                            kids.append(c)
                nd[2] = sorted(kids, key=leftmost)
            drop(s2["root"])
            del s2["tokens"][i - 1]
            if s2["root"][2]:
                yield s2
    # simplify strings
    for i, t in enumerate(sent["tokens"]):
        simple = ["w%d" % (i + 1) if len(sent["tokens"]) > 1 else "w", "NN", "--", "--", "--"]
        for f in range(5):
            if t[f] != simple[f] and not (f == 0 and t[0].startswith("w")):
                s2 = clone(sent)
                s2["tokens"][i][f] = simple[f]
                yield s2
    for idx, c in enumerate(cons[1:]):
        if c[0] != "X" or c[1] != "--":
            s2 = clone(sent)
            c2 = constituents(s2["root"])[idx + 1]
            c2[0] = "X" if c[0] != "X" else c[0]
            c2[1] = "--"
            yield s2


def shrink_treebank(tb):
    for i in range(len(tb)):
        if len(tb) > 1:
            yield tb[:i] + tb[i + 1:]
    for i, s in enumerate(tb):
        for s2 in shrink_sentence(s):
            yield tb[:i] + [s2] + tb[i + 1:]
