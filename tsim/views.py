"""What a reader must deliver for a file and what a writer must put into a file, at model level.

read_view :  model treebank as literally encoded in a source file  ->  trees the reader must
             yield (fields the format does not carry are None)
write_view:  trees in memory -> model treebank the destination file must decode to (absent
             optional fields become the documented default '--'; fields the destination does
             not carry are None; documented parenthesis mapping for the bracket formats; gf
             decoration; brackets_skipdisco)
No repository imports.
"""
from . import model
from . import refcodec as rc

DEFAULT = "--"


class Refusal(Exception):
    """The conversion is documented to be refused (discontinuous tree -> brackets)."""


def ref_split(label, sep="-"):
    """Reference of the documented label grammar
    LABEL (GF_SEP GF)? (= GAPINDEX)? (- COINDEX)? '?   ->  (LABEL[=gap][-co]['], GF or '--')"""
    head = ""
    if label.endswith("'") and len(label) > 1:
        head = "'"
        label = label[:-1]
    co = ""
    i = label.rfind("-")
    if i > -1 and label[i + 1:].isdigit():
        co = label[i + 1:]
        label = label[:i]
    gap = ""
    i = label.rfind("=")
    if i > -1 and label[i + 1:].isdigit():
        gap = label[i + 1:]
        label = label[:i]
    gf = DEFAULT
    i = label.find(sep)
    if 0 < i < len(label) - 1:
        gf = label[i + 1:]
        label = label[:i]
    return label + ("=" + gap if gap else "") + ("-" + co if co else "") + head, gf


def read_view(tb, fmt, codec, opts, kw=None):
    """Trees the reader of fmt must yield for a file rendered from tb with codec/kw."""
    kw = kw or {}
    sep = opts.get("gf_separator", "-")
    out = []
    lemma = codec in ("export4", "tigerxml")
    morph = fmt in ("export", "tigerxml")
    carries_edge = fmt in ("export", "tigerxml")
    for idx, s in enumerate(tb):
        s = model.clone(s)
        if fmt in ("export", "tigerxml"):
            s["sid"] = idx + 1 if "continuous" in opts else s["sid"]
        else:
            s["sid"] = opts.get("brackets_firstid", 1) + idx
        for c in model.constituents(s["root"]):
            flabel = c[0]
            if kw.get("gf") and c[1] not in (None, DEFAULT):
                flabel = c[0] + "-" + c[1]
            if "gf_split" in opts:
                c[0], c[1] = ref_split(flabel, sep)
            else:
                c[0] = flabel
                if not carries_edge:
                    c[1] = None
        for t in s["tokens"]:
            flabel = t[1]
            emptytok = kw.get("emptypos") and t[1] == "EMPTY"
            if kw.get("gf") and t[4] not in (None, DEFAULT) and not emptytok:
                flabel = t[1] + "-" + t[4]
            if "gf_split" in opts and not emptytok:
                t[1], t[4] = ref_split(flabel, sep)
            elif "gf_split" in opts:
                t[4] = DEFAULT
            else:
                t[1] = flabel
                if not carries_edge:
                    t[4] = None
            if not lemma:
                t[2] = None
            if not morph:
                t[3] = None
        if fmt in ("brackets", "discobrackets"):
            s["root"][1] = None        # an empty root label carries no edge: no obligation
        if fmt == "discobrackets" and "disco_reordered" in opts:
            reorder(s, "replace_parens" in opts)
        if "replace_parens" in opts:
            for t in s["tokens"]:
                for i in range(5):
                    t[i] = rc.map_parens(t[i])
            for c in model.constituents(s["root"]):
                c[0] = rc.map_parens(c[0])
                c[1] = rc.map_parens(c[1])
        out.append(s)
    return out


def reorder(s, parens=False):
    """disco_reordered ("output CF order with terminal indices"): the tokens in the order in
    which the tree part of the line lists them (the encoder writes the children of a node in
    stored order), numbered 1..n in that order, every word prefixed with the index it has in
    the sentence part of the line, every token keeping its own word and tag."""
    order = []

    def walk(n):
        for c in n[2]:
            if isinstance(c, int):
                order.append(c)
            else:
                walk(c)
    walk(s["root"])
    newpos = dict((idx, p + 1) for p, idx in enumerate(order))
    toks = []
    for idx in order:
        t = list(s["tokens"][idx - 1])
        t[0] = "%d-%s" % (idx, t[0])     # (no generated word begins with "LRB-" etc.)
        toks.append(t)

    def ren(n):
        n[2] = [newpos[c] if isinstance(c, int) else ren(c) for c in n[2]]
        return n
    ren(s["root"])
    s["tokens"] = toks
    model.sort_children(s["root"])


def dest_codec(fmt, dopts):
    if fmt == "export":
        return "export4" if "export_four" in dopts else "export3"
    return fmt


def write_view(tb, fmt, dopts):
    """Model treebank the destination file of format fmt must decode to."""
    codec = dest_codec(fmt, dopts)
    out = []
    sep = str(dopts.get("gf_separator", "-"))

    def dflt(v):
        return DEFAULT if v is None else v
    for s in tb:
        if fmt == "brackets" and model.gap_degree(s) > 0:
            if "brackets_skipdisco" in dopts:
                continue
            raise Refusal("discontinuous tree to brackets")
        s = model.clone(s)
        for t in s["tokens"]:
            t[2], t[3], t[4] = dflt(t[2]), dflt(t[3]), dflt(t[4])
        for c in model.constituents(s["root"]):
            c[1] = dflt(c[1])
        if "gf" in dopts:
            for c in model.constituents(s["root"]):
                if not c[1].startswith("-"):
                    c[0] = c[0] + sep + c[1]
            if "gf_terminals" in dopts:
                for t in s["tokens"]:
                    if not t[4].startswith("-"):
                        t[1] = t[1] + sep + t[4]
        if fmt in ("brackets", "discobrackets"):
            for t in s["tokens"]:
                if fmt == "brackets":
                    t[0] = rc.map_parens(t[0])
                t[1] = rc.map_parens(t[1])
                t[2] = t[3] = t[4] = None
            for c in model.constituents(s["root"]):
                c[1] = None
            s["sid"] = None
            if "brackets_emptyroot" in dopts:
                s["root"][0] = model.ROOT     # an omitted root label reads back as VROOT
        elif fmt in ("export", "tigerxml"):
            if codec == "export3":
                for t in s["tokens"]:
                    t[2] = None
            s["root"][1] = DEFAULT
        elif fmt == "terminals":
            pass
        out.append(s)
    return out


def terminals_view(tb, dopts):
    out = []
    for s in tb:
        if "terminals_pos" in dopts:
            out.append([[t[0], t[1]] for t in s["tokens"]])
        else:
            out.append([[t[0]] for t in s["tokens"]])
    return out


def compare(exp, got, check_sid=True):
    """Compare two model sentences on every field that is not None in exp.
    Returns None or (category, description)."""
    if len(exp["tokens"]) != len(got["tokens"]):
        return "token-count", "%d != %d" % (len(exp["tokens"]), len(got["tokens"]))
    names = ["word", "pos", "lemma", "morph", "token-edge"]
    for f in (0, 1, 2, 3, 4):
        for i, (a, b) in enumerate(zip(exp["tokens"], got["tokens"])):
            if a[f] is not None and a[f] != b[f]:
                cat = "word-or-pos" if f < 2 else names[f]
                return cat, "token %d %s: expected %r got %r" % (i + 1, names[f], a[f], b[f])
    fl = dict(lemma=False, morph=False, edge=False, sid=False)
    ca, cb = model.canon(exp, **fl), model.canon(got, **fl)
    if ca != cb:
        from .props.common import first_diff
        return "labels-or-dominance", first_diff(ca, cb)
    ce = model.constituents(exp["root"])
    cg = model.constituents(got["root"])
    for a, b in zip(ce, cg):
        if a[1] is not None and a[1] != b[1]:
            return "constituent-edge", "node %s: expected %r got %r" % (a[0], a[1], b[1])
    if check_sid and exp["sid"] is not None and exp["sid"] != got["sid"]:
        return "sentence-id", "expected %r got %r" % (exp["sid"], got["sid"])
    return None
