"""Reference grammar extraction and independent decoders of the grammar file formats.

No repository imports.  A grammar is a dict  {(func, lin): {vert: count}}  with
    func = (lhs, rhs1, ..., rhsk)                 labels
    lin  = ((  (rhs index, argument index), ... ), ...)   one tuple per LHS argument
    vert = (label+fanout of the node, of its parent, ..., of the root)  or "VERT"
and a lexicon  {word: {tag: count}}.
"""
from . import model

VERT = "VERT"


# ---------------------------------------------------------------------------------- extraction
def node_rule(node, tokens):
    """(func, lin) of one constituent of a model sentence."""
    kids = sorted(node[2], key=model.leftmost)
    func = [node[0]]
    owner = {}
    for i, c in enumerate(kids):
        func.append(tokens[c - 1][1] if isinstance(c, int) else c[0])
        for t in model.tokset(c):
            owner[t] = i
    lin = []
    argpos = [0] * len(kids)
    for block in model.runs(model.tokset(node)):
        arg = []
        for t in block:
            i = owner[t]
            if not arg or arg[-1][0] != i:
                arg.append((i, argpos[i]))
                argpos[i] += 1
        lin.append(tuple(arg))
    return tuple(func), tuple(lin)


def extract(tb, gram=None, lex=None):
    gram = {} if gram is None else gram
    lex = {} if lex is None else lex
    for s in tb:
        toks = s["tokens"]

        def rec(node, path):
            if isinstance(node, int):
                return
            me = "%s%d" % (node[0], model.gap_degree_node(node) + 1)
            vert = tuple([me] + path)
            key = node_rule(node, toks)
            d = gram.setdefault(key, {})
            d[vert] = d.get(vert, 0) + 1
            for c in node[2]:
                rec(c, [me] + path)
        rec(s["root"], [])
        for t in toks:
            d = lex.setdefault(t[0], {})
            d[t[1]] = d.get(t[1], 0) + 1
    return gram, lex


def from_dump(d):
    """simproc.dump_grammar -> (gram, lex) in the representation above."""
    gram = {}
    for func, lin, verts in d["g"]:
        key = (tuple(func), tuple(tuple((a, b) for a, b in arg) for arg in lin))
        vs = {}
        for v, c in verts:
            vs[tuple(v) if isinstance(v, list) else v] = c
        gram[key] = vs
    lex = {}
    for word, tags in d["lex"]:
        lex[word] = dict((t, c) for t, c in tags)
    return gram, lex


def flat(gram):
    """{(func, lin): total count}"""
    return dict((k, sum(v.values())) for k, v in gram.items())


def diff_grammars(a, b):
    """First difference between two grammars (dict of dict)."""
    for k in sorted(set(a) | set(b), key=repr):
        if k not in a:
            return "rule only in observed: %r" % (k,)
        if k not in b:
            return "rule only in reference: %r" % (k,)
        if a[k] != b[k]:
            return "counts differ for %r: reference %r observed %r" % (k, a[k], b[k])
    return None


def fan_out(lin, nrhs):
    """[fan-out of lhs, fan-out of each rhs element]"""
    out = [len(lin)] + [0] * nrhs
    for arg in lin:
        for (i, _) in arg:
            out[i + 1] += 1
    return out


def is_contextfree(gram):
    return all(len(lin) == 1 for (_, lin) in gram)


def well_formed_lin(func, lin):
    """Every argument of every RHS element used exactly once, in order."""
    seen = {}
    for arg in lin:
        if not arg:
            return False
        for (i, j) in arg:
            if not (0 <= i < len(func) - 1):
                return False
            if seen.get(i, 0) != j:
                return False
            seen[i] = j + 1
    return sorted(seen) == list(range(len(func) - 1))


# ---------------------------------------------------------------------------------- counts
def node_label_counts(tb):
    out = {}
    for s in tb:
        for c in model.constituents(s["root"]):
            out[c[0]] = out.get(c[0], 0) + 1
    return out


def root_label_counts(tb):
    out = {}
    for s in tb:
        r = s["root"]
        lab = s["tokens"][r - 1][1] if isinstance(r, int) else r[0]   # a tree may be one token
        out[lab] = out.get(lab, 0) + 1
    return out


def tag_counts(lex):
    out = {}
    for w in lex:
        for t, c in lex[w].items():
            out[t] = out.get(t, 0) + c
    return out


def flow_violations(gram, lex, roots):
    """Flow conservation for every symbol X:
       sum(count of rules with LHS X) + lexcount(X as tag)
         == sum_r count(r) * occurrences of X in RHS(r) + occurrences of X as a tree root."""
    lhs = {}
    rhs = {}
    for (func, lin), verts in gram.items():
        c = sum(verts.values())
        lhs[func[0]] = lhs.get(func[0], 0) + c
        for x in func[1:]:
            rhs[x] = rhs.get(x, 0) + c
    tags = tag_counts(lex)
    bad = []
    for x in sorted(set(lhs) | set(rhs) | set(tags) | set(roots), key=repr):
        left = lhs.get(x, 0) + tags.get(x, 0)
        right = rhs.get(x, 0) + roots.get(x, 0)
        if left != right:
            bad.append((x, left, right))
    return bad


# ---------------------------------------------------------------------------------- decoders
class GramDecodeError(Exception):
    pass


def dec_lex(text):
    lex = {}
    for line in text.split("\n"):
        if line == "":
            continue
        if "\t" not in line:
            raise GramDecodeError("lexicon line without tab: %r" % line)
        word, rest = line.split("\t", 1)
        parts = rest.split(" ")
        if len(parts) % 2 or not parts:
            raise GramDecodeError("odd tag/count list: %r" % line)
        if word in lex:
            raise GramDecodeError("word listed twice: %r" % word)
        d = lex[word] = {}
        for i in range(0, len(parts), 2):
            if not parts[i + 1].isdigit():
                raise GramDecodeError("count is not a number: %r" % line)
            if parts[i] in d:
                raise GramDecodeError("tag listed twice for %r" % word)
            d[parts[i]] = int(parts[i + 1])
    return lex


def dec_pmcfg(text):
    """-> {(func, lin): count}"""
    funs = {}
    lins = {}
    counts = {}
    seqs = {}
    for line in text.split("\n"):
        p = line.split()
        if not p:
            continue
        if p[0].startswith("fun"):
            if len(p) >= 4 and p[1] == ":" and "<-" in p:
                k = p.index("<-")
                if k != 3:
                    raise GramDecodeError("bad rule line %r" % line)
                if p[0] in funs:
                    raise GramDecodeError("function id reused")
                funs[p[0]] = tuple([p[2]] + p[k + 1:])
            elif len(p) >= 2 and p[1] == "=":
                lins[p[0]] = p[2:]
            elif len(p) == 2 and p[1].isdigit():
                counts[p[0]] = int(p[1])
            else:
                raise GramDecodeError("cannot parse %r" % line)
        elif p[0].startswith("s") and len(p) >= 2 and p[1] == "->":
            if p[0] in seqs:
                raise GramDecodeError("sequence id reused")
            try:
                seqs[p[0]] = tuple(tuple(int(x) for x in e.split(":")) for e in p[2:])
            except ValueError:
                raise GramDecodeError("bad sequence %r" % line)
        else:
            raise GramDecodeError("cannot parse %r" % line)
    out = {}
    for f in funs:
        if f not in lins or f not in counts:
            raise GramDecodeError("function %s without linearization or count" % f)
        try:
            lin = tuple(seqs[s] for s in lins[f])
        except KeyError as e:
            raise GramDecodeError("undefined sequence %s" % e)
        key = (funs[f], lin)
        if key in out:
            raise GramDecodeError("rule written twice: %r" % (key,))
        out[key] = counts[f]
    return out


def _rcg_pred(p):
    i = p.find("(")
    if i < 1 or not p.endswith(")"):
        raise GramDecodeError("bad predicate %r" % p)
    name = p[:i]
    j = len(name)
    while j > 0 and name[j - 1].isdigit():
        j -= 1
    if j == len(name) or j == 0:
        raise GramDecodeError("predicate without arity suffix %r" % p)
    args = p[i + 1:-1].split(",")
    out = []
    for a in args:
        if not (a.startswith("[") and a.endswith("]")):
            raise GramDecodeError("bad argument %r" % a)
        out.append(a[1:-1].split("]["))
    if int(name[j:]) != len(out):
        raise GramDecodeError("arity suffix %s does not match %d arguments" % (name[j:], len(out)))
    return name[:j], out


def dec_rcg(text):
    """-> {(func, lin): count}"""
    out = {}
    for line in text.split("\n"):
        p = line.split()
        if not p:
            continue
        if not p[0].startswith("C:") or len(p) < 4 or p[2] != "-->":
            raise GramDecodeError("cannot parse %r" % line)
        count = int(p[0][2:])
        lhs, lhsargs = _rcg_pred(p[1])
        func = [lhs]
        var = {}
        for i, pr in enumerate(p[3:]):
            name, args = _rcg_pred(pr)
            func.append(name)
            for j, a in enumerate(args):
                if len(a) != 1:
                    raise GramDecodeError("RHS argument with several variables")
                if a[0] in var:
                    raise GramDecodeError("variable used twice on the RHS")
                var[a[0]] = (i, j)
        lin = []
        used = set()
        for a in lhsargs:
            arg = []
            for v in a:
                if v not in var or v in used:
                    raise GramDecodeError("LHS variable %r unbound or reused" % v)
                used.add(v)
                arg.append(var[v])
            lin.append(tuple(arg))
        if used != set(var):
            raise GramDecodeError("RHS variable not used on the LHS")
        key = (tuple(func), tuple(lin))
        if key in out:
            raise GramDecodeError("rule written twice: %r" % (key,))
        out[key] = count
    return out


def dec_lopar_gram(text):
    """-> {(lhs, rhs1, ..., rhsk): count}: context-free rules in surface order.  The file is
    read as a multiset of rules: the counts of a rule listed twice are added."""
    out = {}
    for line in text.split("\n"):
        p = line.split(" ")
        if line == "":
            continue
        if len(p) < 3 or not p[0].isdigit():
            raise GramDecodeError("cannot parse %r" % line)
        key = tuple(p[1:])
        out[key] = out.get(key, 0) + int(p[0])
    return out


def surface_cfg(flatgram):
    """{(func, lin): count} of a context-free grammar -> {(lhs, rhs in surface order): count}"""
    out = {}
    for (func, lin), c in flatgram.items():
        key = tuple([func[0]] + [func[i + 1] for (i, _) in lin[0]])
        out[key] = out.get(key, 0) + c
    return out


def dec_counts(text):
    """'symbol count' lines -> dict (line order irrelevant: these files represent sets)."""
    out = {}
    for line in text.split("\n"):
        if line == "":
            continue
        p = line.split(" ")
        if len(p) != 2 or not p[1].isdigit():
            raise GramDecodeError("cannot parse %r" % line)
        if p[0] in out:
            raise GramDecodeError("symbol listed twice")
        out[p[0]] = int(p[1])
    return out
