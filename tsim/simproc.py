"""Interpreter of session ops inside ONE simulated process (child side, after fork).

A process spec is a plain dict (see run_process).  Each scheduler step performs exactly one
call into repository code on behalf of one session and records its outcome.  Everything the
oracles look at is produced here as plain data (lists, dicts, str, int, bytes): tree dumps are
taken by raw attribute access (node.children / node.parent / node.data) and never through
repository functions, so that observation cannot perturb or crash the run.
"""
import gc
import io
import os
import signal
import sys
import tempfile

from . import seams


class SimTimeout(BaseException):
    pass


class Repo(object):
    """Handles to repository modules, imported once by the pristine worker."""
    loaded = None

    def __init__(self, repo_path):
        import importlib
        import importlib.util
        from importlib.machinery import SourceFileLoader
        self.path = os.path.abspath(repo_path)
        if sys.path[0] != self.path:
            sys.path.insert(0, self.path)
        names = ['trees', 'treeinput', 'treeoutput', 'transform', 'transformconst', 'misc',
                 'grammar', 'grammaranalysis', 'grammarconst', 'grammarinput',
                 'grammaroutput', 'treeanalysis', 'transitions', 'transitionoutput']
        for n in names:
            setattr(self, n, importlib.import_module('trees.' + n))
        pkg = importlib.import_module('trees')
        if not os.path.abspath(pkg.__file__).startswith(self.path + os.sep):
            raise RuntimeError('trees imported from %s, expected under %s'
                               % (pkg.__file__, self.path))
        loader = SourceFileLoader('treetools_script', os.path.join(self.path, 'treetools'))
        spec = importlib.util.spec_from_loader('treetools_script', loader)
        mod = importlib.util.module_from_spec(spec)
        loader.exec_module(mod)
        self.script = mod


SIMPLE = (str, int, bool, float, type(None))
DATA_KEYS = ('label', 'word', 'lemma', 'morph', 'edge', 'num')
FLAG_KEYS = ('head', 'split', 'head_block', 'block_number', 'sid')


class Registry(object):
    """Per-session stable numbering of node objects (keeps them alive)."""

    def __init__(self):
        self.ids = {}
        self.keep = []

    def nid(self, obj):
        k = id(obj)
        if k not in self.ids:
            self.ids[k] = len(self.keep)
            self.keep.append(obj)
        return self.ids[k]


def _plain(v):
    if isinstance(v, SIMPLE):
        return v
    return 'REPR:' + type(v).__name__


def dump_tree(t, reg, limit=5000):
    """Raw dump of the structure reachable from t through .children."""
    if t is None:
        return None
    nodes = []
    problems = []
    seen = {}
    stack = [t]
    while stack:
        n = stack.pop()
        k = id(n)
        if k in seen:
            continue
        if len(seen) >= limit:
            problems.append('too-many-nodes')
            break
        seen[k] = True
        nid = reg.nid(n)
        data = getattr(n, 'data', None)
        if not isinstance(data, dict):
            problems.append('node-without-data-dict')
            data = {}
        kids = getattr(n, 'children', None)
        if not isinstance(kids, list):
            problems.append('children-not-a-list')
            kids = []
        par = getattr(n, 'parent', None)
        rec = {'id': nid,
               'd': [_plain(data.get(x)) for x in DATA_KEYS],
               'has_num': 'num' in data,
               'f': dict((x, _plain(data[x])) for x in FLAG_KEYS if x in data),
               'c': [reg.nid(c) for c in kids],
               'p': None if par is None else reg.nid(par)}
        nodes.append(rec)
        for c in reversed(kids):
            stack.append(c)
    top = t
    hops = 0
    while getattr(top, 'parent', None) is not None and hops < limit:
        top = top.parent
        hops += 1
    return {'ret': reg.nid(t), 'top': reg.nid(top), 'nodes': nodes, 'problems': problems}


def dump_grammar(gram, lex):
    g = []
    for func in gram:
        for lin in gram[func]:
            verts = gram[func][lin]
            vs = []
            for v in verts:
                vs.append([list(v) if isinstance(v, tuple) else v, verts[v]])
            vs.sort(key=repr)
            g.append([list(func), [[list(e) for e in arg] for arg in lin], vs])
    order = [list(f) for f in gram]
    g.sort(key=repr)
    lx = []
    for word in lex:
        lx.append([word, sorted([[tag, lex[word][tag]] for tag in lex[word]])])
    lx.sort(key=repr)
    return {'g': g, 'lex': lx, 'func_order': order}


class Session(object):
    def __init__(self, idx, spec):
        self.idx = idx
        self.id = spec.get('id', 's%d' % idx)
        self.ops = spec['ops']
        self.on_error = spec.get('on_error', 'abort')
        self.env = {}
        self.reg = Registry()
        self.records = []
        self.done = False
        self.gen = None


class Proc(object):
    def __init__(self, repo, world, spec):
        self.repo = repo
        self.world = world
        self.spec = spec
        self.trace = []
        self.steps = 0

    # ------------------------------------------------------------------ helpers
    def _p(self, v):
        """Map '/sim/...' strings (paths in argv / params) to the real root."""
        if isinstance(v, str) and (v == '/sim' or v.startswith('/sim/')):
            return self.world.real(v)
        if isinstance(v, str) and ':/sim/' in v:
            k, _, rest = v.partition(':')
            return k + ':' + self.world.real(rest)
        return v

    def _opts(self, opts):
        return dict((k, self._p(v)) for k, v in (opts or {}).items())

    # ------------------------------------------------------------------ ops
    def op_reader(self, s, rvar, fmt, path, enc, opts=None):
        s.env[rvar] = getattr(self.repo.treeinput, fmt)(self._p(path), enc, **self._opts(opts))
        return None

    def op_next(self, s, rvar, tvar):
        try:
            t = next(s.env[rvar])
        except StopIteration:
            s.env[tvar] = None
            return 'STOP'
        s.env[tvar] = t
        return dump_tree(t, s.reg)

    def op_close(self, s, rvar):
        s.env[rvar].close()
        return None

    def op_build(self, s, tvar, sent, shuffle_seed=None):
        import random
        T = self.repo.trees
        rng = random.Random(shuffle_seed) if shuffle_seed is not None else None
        tokens = sent['tokens']

        def mk(node):
            if isinstance(node, int):
                tok = tokens[node - 1]
                t = T.Tree(T.make_node_data())
                t.data['word'], t.data['label'], t.data['lemma'], t.data['morph'], \
                    t.data['edge'] = tok[0], tok[1], tok[2], tok[3], tok[4]
                t.data['num'] = node
                return t
            t = T.Tree(T.make_node_data())
            t.data['label'] = node[0]
            t.data['edge'] = node[1]
            t.data['morph'] = T.DEFAULT_MORPH
            t.data['lemma'] = T.DEFAULT_LEMMA
            kids = [mk(c) for c in node[2]]
            if rng is not None:
                rng.shuffle(kids)
            for k in kids:
                k.parent = t
                t.children.append(k)
            return t
        root = mk(sent['root'])
        root.data['sid'] = sent['sid']
        s.env[tvar] = root
        return dump_tree(root, s.reg)

    def op_trans(self, s, tvar, name, params=None, outvar=None):
        t = getattr(self.repo.transform, name)(s.env[tvar], **self._opts(params))
        s.env[outvar or tvar] = t
        return dump_tree(t, s.reg)

    def op_dump(self, s, tvar):
        return dump_tree(s.env[tvar], s.reg)

    def op_mark(self, s, label):
        """Harness op: a marker in the record stream."""
        return label

    def op_put(self, s, path, key):
        """Harness op (no repository code): the environment replaces the content of a file."""
        with seams.REAL_OPEN(self._p(path), 'wb') as f:
            f.write(self.spec['blobs'][key])
        return None

    def op_wopen(self, s, svar, path, enc):
        s.env[svar] = io.open(self._p(path), 'w', encoding=enc)
        return None

    def op_sio(self, s, svar):
        s.env[svar] = io.StringIO()
        return None

    def op_sval(self, s, svar):
        return s.env[svar].getvalue()

    def op_wclose(self, s, svar):
        s.env[svar].close()
        return None

    def op_wbegin(self, s, fmt, svar, opts=None):
        getattr(self.repo.treeoutput, fmt + '_begin')(s.env[svar], **self._opts(opts))
        return None

    def op_wend(self, s, fmt, svar, opts=None):
        getattr(self.repo.treeoutput, fmt + '_end')(s.env[svar], **self._opts(opts))
        return None

    def op_write(self, s, fmt, tvar, svar, opts=None):
        getattr(self.repo.treeoutput, fmt)(s.env[tvar], s.env[svar], **self._opts(opts))
        return None

    def op_gnew(self, s, gvar):
        s.env[gvar] = ({}, {})
        return None

    def op_extract(self, s, tvar, gvar):
        g, lx = s.env[gvar]
        self.repo.grammar.extract(s.env[tvar], g, lx)
        return None

    def op_gdump(self, s, gvar):
        g, lx = s.env[gvar]
        return dump_grammar(g, lx)

    def op_gbin(self, s, gsrc, gdst, reordering=None, markov=None):
        G = self.repo.grammar
        g, lx = s.env[gsrc]
        kw = {}
        if reordering == 'none':
            kw['reordering'] = G.reordering_none
        elif reordering == 'optimal':
            kw['reordering'] = G.reordering_optimal
        if markov is not None:
            kw['markov_opts'] = dict(markov)
        s.env[gdst] = (G.binarize(g, **kw), lx)
        return None

    def op_gwrite(self, s, fmt, gvar, dest, enc, opts=None):
        g, lx = s.env[gvar]
        getattr(self.repo.grammaroutput, fmt)(g, lx, self._p(dest), enc, **self._opts(opts))
        return None

    def op_gread(self, s, fmt, gvar, src, enc, opts=None):
        s.env[gvar] = getattr(self.repo.grammarinput, fmt)(self._p(src), enc,
                                                          **self._opts(opts))
        return None

    def op_gbatch(self, s, items):
        """A caller script that extracts, (binarizes,) dumps and writes several grammars one
        after the other in one process, dropping each before the next (batch use of the API).
        Returns the dumps taken right before each write."""
        G = self.repo.grammar
        T = self.repo.trees
        dumps = []
        for it in items:
            gram, lex = {}, {}
            for j, sent in enumerate(it['tb']):
                self.op_build(s, '_bt', sent, it.get('shuffle', 0) + j)
                G.extract(s.env['_bt'], gram, lex)
            out = gram
            mode = it.get('mode')
            if mode is not None:
                kw = {}
                if mode['reordering'] == 'none':
                    kw['reordering'] = G.reordering_none
                elif mode['reordering'] == 'optimal':
                    kw['reordering'] = G.reordering_optimal
                if mode.get('markov') is not None:
                    kw['markov_opts'] = dict(mode['markov'])
                out = G.binarize(gram, **kw)
            dumps.append(dump_grammar(out, lex))
            getattr(self.repo.grammaroutput, it['fmt'])(out, lex, self._p(it['dest']), it['enc'],
                                                        **self._opts(it.get('opts')))
            del gram, lex, out
        return dumps

    def op_gcf(self, s, gvar):
        return bool(self.repo.grammaranalysis.is_contextfree(s.env[gvar][0]))

    def op_task_new(self, s, var, name):
        s.env[var] = getattr(self.repo.treeanalysis, name)()
        return None

    def op_task_run(self, s, var, tvar):
        s.env[var].run(s.env[tvar])
        return None

    def op_task_done(self, s, var):
        s.env[var].done()
        return None

    def op_tr_new(self, s, lvar):
        s.env[lvar] = []
        return None

    def op_tr_extract(self, s, kind, tvar, lvar):
        sent, trans = getattr(self.repo.transitions, kind)(s.env[tvar])
        s.env[lvar].append((sent, trans))
        return [[list(x) for x in sent], [str(t) for t in trans]]

    def op_tr_write(self, s, lvar, dest, enc, opts=None):
        self.repo.transitionoutput.plain(s.env[lvar], self._p(dest), enc, **self._opts(opts))
        return None

    def op_cli(self, s, argv):
        old = sys.argv
        sys.argv = ['treetools'] + [self._p(a) for a in argv]
        try:
            try:
                self.repo.script.main()
            except SystemExit as e:
                code = e.code
                if code is None:
                    code = 0
                if not isinstance(code, int):
                    code = 1
                return {'exit': code}
            return {'exit': 0}
        finally:
            sys.argv = old

    def op_call(self, s, fn, *args):
        R = self.repo
        if fn == 'gap_degree':
            return R.treeanalysis.gap_degree(s.env[args[0]])
        if fn == 'split_spec':
            return list(R.treeoutput.parse_split_specification(args[0], args[1]))
        if fn == 'nodefns':
            # per constituent node (raw traversal): gap degree, blocks
            out = []
            stack = [s.env[args[0]]]
            while stack:
                n = stack.pop()
                if n.children:
                    gd = R.treeanalysis.gap_degree_node(n)
                    blocks = [[t.data['num'] for t in b] for b in R.trees.terminal_blocks(n)]
                    out.append([s.reg.nid(n), gd, blocks])
                    stack.extend(n.children)
            out.sort()
            return out
        if fn == 'subwrite':
            # the bracket writer applied to the k-th constituent below the root (raw preorder)
            cands = []
            stack = list(reversed(s.env[args[0]].children))
            while stack:
                n = stack.pop()
                if n.children:
                    cands.append(n)
                    stack.extend(reversed(n.children))
            if not cands:
                return None
            node = cands[args[1] % len(cands)]
            buf = io.StringIO()
            try:
                R.treeoutput.brackets(node, buf)
                return [s.reg.nid(node), 'written']
            except ValueError:
                return [s.reg.nid(node), 'refused']
        if fn == 'delete_terminal':
            root = s.env[args[0]]
            leaf = None
            stack = [root]
            while stack:
                n = stack.pop()
                if not n.children and n.data.get('num') == args[1]:
                    leaf = n
                    break
                stack.extend(n.children)
            ret = R.trees.delete_terminal(root, leaf)
            return {'ret': dump_tree(ret, s.reg), 'tree': dump_tree(root, s.reg)}
        if fn == 'disco_order':
            return [t.data['num'] for t in R.treeanalysis.disco_order(s.env[args[0]], args[1])]
        if fn == 'parse_label':
            lab = R.trees.parse_label(args[0], **(args[1] if len(args) > 1 else {}))
            return [lab.label, lab.gf, lab.gapindex, lab.coindex, lab.headmarker,
                    bool(lab.is_trace)]
        raise KeyError('unknown call ' + fn)

    # ------------------------------------------------------------------ stepping
    def perform(self, s, op):
        kind = op[0]
        handler = getattr(self, 'op_' + kind)
        out, err = io.StringIO(), io.StringIO()
        old_out, old_err = sys.stdout, sys.stderr
        sys.stdout, sys.stderr = out, err
        rec = {'op': kind}
        try:
            try:
                rec['ok'] = handler(s, *op[1:])
            except SimTimeout:
                raise
            except (Exception, SystemExit, RecursionError) as e:
                rec['exc'] = type(e).__name__
                rec['msg'] = str(e)[:300].replace(self.world.root, '/sim')
        finally:
            sys.stdout, sys.stderr = old_out, old_err
        o = out.getvalue()
        if o:
            rec['out'] = o.replace(self.world.root, '/sim')
        rec['errlen'] = len(err.getvalue())
        self.steps += 1
        self.trace.append((s.idx, kind))
        s.records.append(rec)
        return rec

    def session_gen(self, s, ops):
        """Generator: performs one primitive op per resumption."""
        for op in ops:
            if op[0] == 'loop':
                _, rvar, tvar, body = op[:4]
                maxit = op[4] if len(op) > 4 else 100000
                it = 0
                while it < maxit:
                    it += 1
                    rec = self.perform(s, ['next', rvar, tvar])
                    yield rec
                    if 'exc' in rec:
                        if s.on_error == 'abort':
                            return
                        break
                    if rec['ok'] == 'STOP':
                        break
                    skip = False
                    for b in body:
                        if skip:
                            break
                        if b[0] == 'trans':
                            rec = self.perform(s, b)
                            yield rec
                            if 'exc' in rec:
                                if s.on_error == 'abort':
                                    return
                                skip = True
                            elif rec['ok'] is None:
                                skip = True      # filtered out: rest of body skipped
                        else:
                            rec = self.perform(s, b)
                            yield rec
                            if 'exc' in rec:
                                if s.on_error == 'abort':
                                    return
                                skip = True
            else:
                rec = self.perform(s, op)
                yield rec
                if 'exc' in rec and s.on_error == 'abort':
                    return

    def run(self):
        sessions = [Session(i, sp) for i, sp in enumerate(self.spec['sessions'])]
        for s in sessions:
            s.gen = self.session_gen(s, s.ops)
        schedule = list(self.spec.get('schedule') or [])
        max_steps = self.spec.get('max_steps', 4000)
        pos = 0
        while True:
            runnable = [s for s in sessions if not s.done]
            if not runnable or self.steps >= max_steps:
                break
            if pos < len(schedule):
                pick = runnable[schedule[pos] % len(runnable)]
                pos += 1
            else:
                pick = runnable[0]
            try:
                next(pick.gen)
            except StopIteration:
                pick.done = True
        return sessions


def _alarm(signum, frame):
    raise SimTimeout()


class _TempNames(object):
    """Deterministic replacement of tempfile's random name sequence."""

    def __init__(self):
        self.n = 0

    def __iter__(self):
        return self

    def __next__(self):
        self.n += 1
        return 't%05d' % self.n


def run_process(repo, spec, root):
    """Execute a process spec in the current (forked) process.  Returns observations."""
    os.makedirs(os.path.join(root, 'w'), exist_ok=True)
    os.makedirs(os.path.join(root, 'tmp'), exist_ok=True)
    world = seams.World(root, io_seed=spec.get('io_seed', 0),
                        short_reads=spec.get('short_reads', True),
                        listdir_seed=spec.get('listdir_seed', 0),
                        faults=spec.get('faults', ()),
                        platform_name=spec.get('platform', 'Linux'))
    for d in spec.get('dirs', ()):
        os.makedirs(world.real(d), exist_ok=True)
    for path, data in sorted(spec.get('files', {}).items()):
        rp = world.real(path)
        os.makedirs(os.path.dirname(rp), exist_ok=True)
        with seams.REAL_OPEN(rp, 'wb') as f:
            f.write(data)
    os.chdir(os.path.join(root, 'w'))
    tempfile.tempdir = os.path.join(root, 'tmp')
    if hasattr(tempfile, '_name_sequence'):
        tempfile._name_sequence = _TempNames()
    signal.signal(signal.SIGALRM, _alarm)
    signal.alarm(int(spec.get('alarm', 30)))
    proc = Proc(repo, world, spec)
    obs = {'hang': False}
    lines = set()
    mon = getattr(sys, 'monitoring', None) if spec.get('cover') else None
    if mon is not None:
        prefix = os.path.join(repo.path, 'trees') + os.sep
        script = os.path.join(repo.path, 'treetools')

        def on_line(code, lineno):
            fn = code.co_filename
            if fn.startswith(prefix) or fn == script:
                lines.add((os.path.basename(fn), lineno))
            return mon.DISABLE
        try:
            mon.use_tool_id(mon.COVERAGE_ID, 'tsim')
            mon.register_callback(mon.COVERAGE_ID, mon.events.LINE, on_line)
            mon.set_events(mon.COVERAGE_ID, mon.events.LINE)
        except Exception:
            mon = None
    world.activate()
    try:
        try:
            sessions = proc.run()
        except SimTimeout:
            obs['hang'] = True
            sessions = []
    finally:
        signal.alarm(0)
        world.deactivate()
        if mon is not None:
            try:
                mon.set_events(mon.COVERAGE_ID, 0)
            except Exception:
                pass
    if spec.get('cover'):
        obs['lines'] = sorted(lines)
    # drop references to live generators/streams, as interpreter exit would
    recs = {}
    ids = []
    for s in sessions:
        recs[s.id] = s.records
        ids.append(s.id)
        s.env.clear()
        s.gen = None
    unclosed_before_gc = world.unclosed()
    gc.collect()
    obs['sessions'] = recs
    obs['session_ids'] = ids
    obs['trace'] = proc.trace
    obs['steps'] = proc.steps
    obs['stats'] = dict(world.stats)
    obs['unclosed_at_return'] = unclosed_before_gc
    obs['unclosed_at_exit'] = world.unclosed()
    obs['writelog'] = [(q, p, o, d) for (q, p, o, d) in world.writelog]
    files = {}
    inputs = spec.get('files', {})
    for dirpath, dirnames, filenames in os.walk(root):
        dirnames.sort()
        for fn in sorted(filenames):
            rp = os.path.join(dirpath, fn)
            rel = world.rel(rp)
            if rel.startswith('/sim/tmp/'):
                obs['stats']['tmpfiles_left'] = obs['stats'].get('tmpfiles_left', 0) + 1
                continue
            with seams.REAL_OPEN(rp, 'rb') as f:
                data = f.read()
            if rel in inputs and inputs[rel] == data and not spec.get('harvest_inputs'):
                continue
            files[rel] = data
    obs['files'] = files
    return obs
