"""Master: generation, dispatch to workers, violation handling, replay, evidence.

The master never imports repository code.  It re-executes itself with PYTHONHASHSEED=0 (see
/verif/check) and iterates only sorted containers, so its own choices are a function of
VERIF_SEED alone.
"""
import hashlib
import json
import os
import select
import subprocess
import sys
import threading
import time

from . import props
from . import sim as simmod

VERIF = os.path.dirname(os.path.dirname(os.path.abspath(__file__)))
WORKER = os.path.join(VERIF, 'tsim', 'worker.py')
KNOWN_FILE = os.path.join(VERIF, 'KNOWN_FINDINGS.txt')
REPLAYS = os.path.join(VERIF, 'replays')
EVIDENCE = os.path.join(VERIF, 'evidence')


def scenario_seed(verif_seed, prop, idx):
    h = hashlib.sha1(('%d:%s:%d' % (verif_seed, prop, idx)).encode()).hexdigest()
    return int(h[:14], 16)


def hashseed_pair(verif_seed):
    return (0, 1 + (verif_seed * 7919 + 104729) % 4000000000)


class WorkerDied(Exception):
    pass


class Worker(object):
    def __init__(self, repo, hashseeds, idx=0):
        env = dict(os.environ)
        env['PYTHONHASHSEED'] = str(hashseeds[0])
        env['PYTHONDONTWRITEBYTECODE'] = '1'
        self.p = subprocess.Popen([sys.executable, WORKER, '--repo', repo, '--hashseeds',
                                   '%d,%d' % tuple(hashseeds)],
                                  stdin=subprocess.PIPE, stdout=subprocess.PIPE, env=env)
        self.idx = idx
        msg = self._recv(120)
        if msg[0] != 'ready':
            raise WorkerDied('worker failed to start: %s' % (msg[1],))

    def _recv(self, timeout):
        fd = self.p.stdout.fileno()
        deadline = time.monotonic() + timeout
        buf = b''
        need = 8
        hdr = None
        while True:
            left = deadline - time.monotonic()
            if left <= 0:
                raise WorkerDied('worker timeout')
            r, _, _ = select.select([fd], [], [], left)
            if not r:
                raise WorkerDied('worker timeout')
            c = os.read(fd, 1 << 20)
            if not c:
                raise WorkerDied('worker closed the channel')
            buf += c
            if hdr is None and len(buf) >= 8:
                import struct
                (hdr,) = struct.unpack('<Q', buf[:8])
                buf = buf[8:]
            if hdr is not None and len(buf) >= hdr:
                import pickle
                return pickle.loads(buf[:hdr])

    def call(self, task, timeout=180):
        try:
            simmod.send_msg(self.p.stdin, task)
        except (BrokenPipeError, OSError) as e:
            raise WorkerDied('cannot send to worker: %r' % (e,))
        return self._recv(timeout)

    def close(self, kill=False):
        try:
            if kill:
                self.p.kill()
            else:
                try:
                    simmod.send_msg(self.p.stdin, ('quit',))
                    self.p.stdin.close()
                except Exception:
                    pass
                try:
                    self.p.wait(timeout=10)
                except Exception:
                    self.p.kill()
        finally:
            try:
                self.p.stdout.close()
            except Exception:
                pass


def load_known():
    known = []
    fixed = []
    if os.path.exists(KNOWN_FILE):
        with open(KNOWN_FILE, encoding='utf-8') as f:
            for line in f:
                line = line.strip()
                if line.startswith('known:'):
                    parts = line[len('known:'):].split(None, 2)
                    d = {}
                    for p in parts[:2]:
                        if '=' in p:
                            k, v = p.split('=', 1)
                            d[k] = v
                    d['what'] = parts[2] if len(parts) > 2 else ''
                    known.append(d)
                elif line.startswith('fixed:'):
                    fixed.append(line)
    return known, fixed


def merge_counts(dst, src):
    for k in sorted(src):
        v = src[k]
        if isinstance(v, dict):
            merge_counts(dst.setdefault(k, {}), v)
        elif isinstance(v, bool):
            dst[k] = dst.get(k, 0) + (1 if v else 0)
        elif isinstance(v, (int, float)):
            dst[k] = dst.get(k, 0) + v


class Batch(object):
    """One run of one property."""

    def __init__(self, prop, tier, verif_seed, repo, jobs, count=None, wallcap=None,
                 quiet=False):
        self.prop = prop
        self.mod = props.get(prop)
        self.tier = tier
        self.seed = verif_seed
        self.repo = repo
        self.jobs = jobs
        self.count = count if count is not None else self.mod.budget(tier)
        self.wallcap = wallcap or (240 if tier == 'quick' else 3000)
        self.hashseeds = hashseed_pair(verif_seed)
        self.quiet = quiet
        self.results = {}
        self.errors = []
        self.lock = threading.Lock()
        self.next_idx = 0
        self.t0 = time.monotonic()
        self.truncated = False
        self.cover = True
        self.hangs = 0

    def make_scenario(self, idx):
        s = scenario_seed(self.seed, self.prop, idx)
        sc = self.mod.generate(s, self.tier)
        sc['property'] = self.prop
        sc['seed'] = s
        sc['tier'] = self.tier
        sc['hashseeds'] = list(self.hashseeds)
        if idx % 8 == 0 and self.cover:
            sc['cover'] = True
        return sc

    def _take(self):
        with self.lock:
            if self.next_idx >= self.count:
                return None
            if time.monotonic() - self.t0 > self.wallcap:
                self.truncated = True
                return None
            i = self.next_idx
            self.next_idx += 1
            return i

    def _thread(self, widx):
        w = None
        try:
            w = Worker(self.repo, self.hashseeds, widx)
            while True:
                i = self._take()
                if i is None:
                    break
                sc = self.make_scenario(i)
                try:
                    tag, val = w.call(('exec', self.prop, sc), timeout=900)
                except WorkerDied as e:
                    with self.lock:
                        self.errors.append('scenario %d (seed %d): %s' % (i, sc['seed'], e))
                    w.close(kill=True)
                    w = Worker(self.repo, self.hashseeds, widx)
                    continue
                if tag != 'ok':
                    with self.lock:
                        self.errors.append('scenario %d (seed %d): %s' % (i, sc['seed'], val))
                    continue
                with self.lock:
                    self.results[i] = val
                    if any('/hang' in v['sig'] for v in val.get('violations', [])):
                        self.hangs += 1
                        if self.hangs >= 3:
                            self.count = min(self.count, self.next_idx)   # stop dispatching
        except BaseException as e:
            with self.lock:
                self.errors.append('worker thread %d: %r' % (widx, e))
        finally:
            if w is not None:
                w.close()

    def run(self):
        threads = [threading.Thread(target=self._thread, args=(j,)) for j in range(self.jobs)]
        for t in threads:
            t.start()
        for t in threads:
            t.join()
        self.wall = time.monotonic() - self.t0


def digest_detail(detail):
    return hashlib.sha1(json.dumps(detail, sort_keys=True, default=repr).encode()).hexdigest()


def write_replay(prop, scenario, sig, detail, tag=''):
    os.makedirs(REPLAYS, exist_ok=True)
    sh = hashlib.sha1(sig.encode()).hexdigest()[:6]
    path = os.path.join(REPLAYS, '%s-%d-%s%s.json' % (prop, scenario['seed'], sh, tag))
    doc = dict(scenario)
    doc['expect'] = {'signature': sig, 'detail': detail, 'detail_sha1': digest_detail(detail)}
    with open(path, 'w', encoding='utf-8') as f:
        json.dump(doc, f, indent=1, sort_keys=True, default=repr)
        f.write('\n')
    return path


def replay(path, repo):
    """Execute a replay file in a fresh worker.  Returns (reproduced, sigs, detail)."""
    with open(path, encoding='utf-8') as f:
        doc = json.load(f)
    prop = doc['property']
    expect = doc.get('expect', {})
    scenario = dict((k, v) for k, v in doc.items() if k != 'expect')
    w = Worker(repo, tuple(scenario.get('hashseeds', (0, 1))))
    try:
        tag, val = w.call(('exec', prop, scenario))
    finally:
        w.close()
    if tag != 'ok':
        raise RuntimeError('harness error during replay:\n%s' % (val,))
    sigs = [v['sig'] for v in val['violations']]
    want = expect.get('signature')
    hit = [v for v in val['violations'] if v['sig'] == want]
    same_detail = bool(hit) and digest_detail(hit[0]['detail']) == expect.get('detail_sha1')
    return prop, want, bool(hit), same_detail, val['violations']


def run_check(prop, tier, verif_seed, repo, jobs, count=None, wallcap=None, shrink_budget=None,
              write_evidence=True):
    t0 = time.monotonic()
    known, _fixed = load_known()
    known_for = [k for k in known if k.get('property') == prop]
    b = Batch(prop, tier, verif_seed, repo, jobs, count, wallcap)
    b.run()
    out = []
    status = 0
    if b.errors:
        for e in b.errors[:5]:
            print('HARNESS-ERROR property=%s %s' % (prop, e.strip().splitlines()[-1][:300]))
            sys.stderr.write(e + '\n')
        status = 2
    # ---- aggregate
    agg = {}
    lines_reached = set()
    shapes = set()
    schedules = set()
    nontrivial_shapes = set()
    samples = []
    by_sig = {}
    nviol = 0
    notes = []
    for i in sorted(b.results):
        r = b.results[i]
        st = r.get('stats', {})
        merge_counts(agg, dict((k, v) for k, v in st.items()
                               if k not in ('shape', 'schedule', 'sample', 'nontrivial', 'lines',
                                            'notes')))
        for note in st.get('notes', []):
            notes.append('scenario %d: %s' % (i, note))
        for x in st.get('lines', []):
            lines_reached.add(tuple(x))
        if 'shape' in st:
            shapes.add(st['shape'])
            if st.get('nontrivial'):
                nontrivial_shapes.add(st['shape'])
        for s in st.get('schedules', []) if isinstance(st.get('schedules'), list) else []:
            schedules.add(s)
        if 'schedule' in st:
            schedules.add(st['schedule'])
        if len(samples) < 4 and 'sample' in st and (st.get('nontrivial') or i < 2):
            samples.append({'index': i, 'seed': scenario_seed(verif_seed, prop, i),
                            'case': st['sample']})
        for v in r.get('violations', []):
            nviol += 1
            by_sig.setdefault(v['sig'], []).append((i, v))
    for note in notes[:10]:
        print('HARNESS-WARNING property=%s %s' % (prop, note[:400]))
    # ---- violations
    unknown = 0
    known_seen = []
    shrink_budget = shrink_budget if shrink_budget is not None else \
        (150 if tier == 'quick' else 400)
    new_sigs = []
    for sig in sorted(by_sig, key=lambda s: by_sig[s][0][0]):
        kf = [k for k in known_for if k.get('signature') == sig]
        if kf:
            print('KNOWN-FINDING: property=%s %s [signature=%s, %d scenario(s) this run]'
                  % (prop, kf[0]['what'], sig, len(by_sig[sig])))
            known_seen.append({'signature': sig, 'count': len(by_sig[sig])})
        else:
            new_sigs.append(sig)
    if new_sigs:
        w = None
        try:
            w = Worker(repo, b.hashseeds)
            for sig in new_sigs[:12]:
                i, v = by_sig[sig][0]
                sc = b.make_scenario(i)
                detail = v['detail']
                minimised = sc
                try:
                    tag, val = w.call(('shrink', prop, sc, sig, shrink_budget,
                                       60 if tier == 'quick' else 240), timeout=900)
                    if tag == 'ok':
                        minimised = val['scenario']
                        tag2, val2 = w.call(('exec', prop, minimised))
                        if tag2 == 'ok':
                            for v2 in val2['violations']:
                                if v2['sig'] == sig:
                                    detail = v2['detail']
                except WorkerDied:
                    w.close(kill=True)
                    w = Worker(repo, b.hashseeds)
                path = write_replay(prop, minimised, sig, detail)
                # replay in a fresh interpreter before reporting
                try:
                    _, _, hit, same, _ = replay(path, repo)
                except Exception as e:
                    hit, same = False, False
                    sys.stderr.write('replay failed: %r\n' % (e,))
                if not hit:
                    # fall back to the unminimised scenario
                    path = write_replay(prop, sc, sig, v['detail'], tag='-full')
                    try:
                        _, _, hit, same, _ = replay(path, repo)
                    except Exception:
                        hit = False
                if not hit:
                    print('HARNESS-ERROR property=%s violation %s did not reproduce on replay '
                          '(%s)' % (prop, sig, path))
                    status = max(status, 2)
                    continue
                unknown += 1
                print('VIOLATION property=%s replay=%s' % (prop, path))
                print('  signature: %s' % sig)
                print('  scenarios with this signature in this run: %d' % len(by_sig[sig]))
                print('  detail: %s' % json.dumps(detail, sort_keys=True, default=repr)[:600])
        finally:
            if w is not None:
                w.close()
        for sig in new_sigs[12:]:
            unknown += 1
            i, v = by_sig[sig][0]
            path = write_replay(prop, b.make_scenario(i), sig, v['detail'], tag='-full')
            print('VIOLATION property=%s replay=%s' % (prop, path))
            print('  signature: %s (not minimised)' % sig)
    if unknown:
        status = 1
    wall = time.monotonic() - t0
    n = len(b.results)
    # ---- evidence
    if write_evidence:
        os.makedirs(EVIDENCE, exist_ok=True)
        mod = b.mod
        faults = agg.get('faults', {})
        cov = {
            'evaluations': n,
            'distinct_nontrivial': len(nontrivial_shapes),
            'rule': mod.RULE,
            'samples': samples or [{'note': 'no sample recorded'}],
            'scenarios_per_hour': int(n / max(b.wall, 1e-6) * 3600),
            'scenario_indices': [0, max(0, b.next_idx - 1)],
            'scenario_seed_rule': 'sha1("%d:%s:<index>")[:14]' % (verif_seed, prop),
            'hashseeds': list(b.hashseeds),
            'simulated_time': 'none: treetools has no clock or timer; logical steps only',
            'logical_steps': agg.get('steps', 0),
            'simulated_processes': agg.get('procs', 0),
            'vfs_operations': agg.get('vfs_ops', 0),
            'fault_kinds_fired': dict((k, faults[k]) for k in sorted(faults)),
            'distinct_schedules': len(schedules),
            'distinct_scenario_shapes': len(shapes),
            'probes': dict((k, agg.get('probes', {})[k]) for k in sorted(agg.get('probes', {}))),
            'oracle_checks': dict((k, agg.get('checks', {})[k])
                                  for k in sorted(agg.get('checks', {}))),
            'repo_lines_reached': len(lines_reached),
            'repo_lines_reached_by_file': dict(
                (f, sum(1 for (g, _) in lines_reached if g == f))
                for f in sorted(set(g for (g, _) in lines_reached))),
            'repo_lines_note': 'distinct (file, line) pairs of /repo/trees/*.py and the treetools '
                               'script executed inside simulated processes (sys.monitoring LINE '
                               'events, every 8th scenario)',
            'truncated_by_wall_cap': b.truncated,
            'harness_errors': len(b.errors),
            'known_findings_seen': known_seen,
            'components_real': ['trees/*.py', 'treetools script + argparse',
                                'io.TextIOWrapper/BufferedReader/BufferedWriter', 'gzip',
                                'xml.etree/expat', 'tempfile'],
            'components_stubbed': ['raw file objects below the buffered layer (SimRaw over a '
                                   'private tmpfs directory)', 'os.listdir/os.scandir order',
                                   'platform.system', 'sys.stdout/sys.stderr',
                                   'process creation (fork of a pristine interpreter)'],
            'repo': repo,
        }
        if notes:
            cov['harness_warnings'] = notes[:20]
        if agg.get('checks', {}).get('real_subprocess_scenarios'):
            cov['real_subprocess_crosscheck'] = (
                '%d scenarios (%d commands) were also executed as real `python treetools ...` '
                'processes on a real directory without any seam; exit statuses and produced '
                'files compared byte for byte with the simulated run: %d disagreement(s)'
                % (agg['checks']['real_subprocess_scenarios'],
                   agg['checks'].get('real_subprocess_commands', 0),
                   agg['checks'].get('real_subprocess_disagreements', 0)))
        if os.environ.get('VERIF_LINES_OUT'):
            # development aid: the (file, line) pairs behind repo_lines_reached
            with open(os.environ['VERIF_LINES_OUT'], 'a', encoding='utf-8') as lf:
                for pair in sorted(lines_reached):
                    lf.write('%s %d\n' % pair)
        probes0 = sorted(k for k, v in cov['probes'].items() if v == 0)
        if probes0:
            cov['probes_stuck_at_zero'] = probes0
        ev = {
            'property_id': prop,
            'tier': tier,
            'seed': verif_seed,
            'level': 'exploration',
            'coverage': cov,
            'assumptions': list(getattr(mod, 'ASSUMPTIONS', [])),
            'wall_s': round(wall, 2),
            'violations': unknown,
        }
        tmp = os.path.join(EVIDENCE, '%s.json.tmp' % prop)
        with open(tmp, 'w', encoding='utf-8') as f:
            json.dump(ev, f, indent=1, sort_keys=True, default=repr)
            f.write('\n')
        os.replace(tmp, os.path.join(EVIDENCE, '%s.json' % prop))
    print('%s tier=%s seed=%d scenarios=%d (%.0f/s) shapes=%d nontrivial=%d violations=%d '
          'known=%d wall=%.1fs%s'
          % (prop, tier, verif_seed, n, n / max(b.wall, 1e-6), len(shapes),
             len(nontrivial_shapes), unknown, len(known_seen), wall,
             ' TRUNCATED' if b.truncated else ''))
    if n == 0 and status == 0:
        print('HARNESS-ERROR property=%s no scenario executed' % prop)
        status = 2
    return status
