"""Seams of one simulated process (child side).

The simulated file system is a *real* directory on tmpfs that belongs to exactly one
simulated process (created before, removed after).  Every open()/io.open() of a path below
that root is answered by the real text/buffer layers stacked on a SimRaw object which

  - returns short reads of seeded length (fault kind K1),
  - raises injected OSError at the n-th raw read / write / open (K6),
  - appends every raw write to the write log (history for C09/C17),
  - counts what actually fired.

os.listdir / os.scandir below the root return a seeded permutation (K2).
platform.system is stubbed.  stdout/stderr are captured per scheduler step by simproc.

Nothing here imports repository code.
"""
import builtins
import errno
import io
import os
import platform
import random
import zlib

REAL_OPEN = builtins.open
REAL_LISTDIR = os.listdir
REAL_SCANDIR = os.scandir
REAL_PLATFORM_SYSTEM = platform.system


def stable_hash(*parts):
    """Hash that does not depend on PYTHONHASHSEED."""
    h = 0
    for p in parts:
        h = zlib.crc32(repr(p).encode('utf-8'), h)
    return h


class SimRaw(io.RawIOBase):
    """Raw file below the buffered layer: short reads, injected errors, write log."""

    def __init__(self, world, path, fileio, nth_open):
        super().__init__()
        self._w = world
        self._path = path
        self._rel = world.rel(path)
        self._f = fileio
        self._rng = random.Random(stable_hash(world.io_seed, self._rel, nth_open))
        self._style = self._rng.choice(('full', 'tiny', 'mixed', 'block', 'mixed'))
        self._block = self._rng.randint(5, 300)
        self.name = path
        self.mode = fileio.mode
        world._open_raws[id(self)] = (self._rel, fileio.mode)

    # -- capabilities
    def readable(self):
        return self._f.readable()

    def writable(self):
        return self._f.writable()

    def seekable(self):
        return self._f.seekable()

    def isatty(self):
        return False

    def fileno(self):
        return self._f.fileno()

    @property
    def closed(self):
        return self._f.closed

    # -- reading
    def _chunk(self, n):
        if not self._w.short_reads or self._style == 'full':
            return n
        if self._style == 'tiny':
            k = self._rng.randint(1, 4)
        elif self._style == 'block':
            k = self._block
        else:
            k = self._rng.choice((1, 2, 3, 5, 8, 13, 64, 1000, n))
        return max(1, min(n, k))

    def readinto(self, b):
        w = self._w
        w.stats['raw_reads'] += 1
        w.fault_point('read', self._rel)
        n = len(b)
        if n == 0:
            return 0
        k = self._chunk(n)
        data = self._f.read(k)
        if data and len(data) == k and k < n:
            w.stats['short_read'] += 1
            if data[-1] & 0xC0 == 0xC0:
                w.stats['short_read_splits_multibyte'] += 1
        b[:len(data)] = data
        return len(data)

    # -- writing
    def write(self, b):
        w = self._w
        w.stats['raw_writes'] += 1
        w.fault_point('write', self._rel)
        data = bytes(b)
        off = self._f.tell()
        n = self._f.write(data)
        w.writelog.append((len(w.writelog), self._rel, off, data[:n]))
        return n

    def seek(self, pos, whence=0):
        return self._f.seek(pos, whence)

    def tell(self):
        return self._f.tell()

    def truncate(self, size=None):
        return self._f.truncate(size)

    def flush(self):
        if not self._f.closed:
            self._f.flush()

    def close(self):
        if not self._f.closed:
            self._w._open_raws.pop(id(self), None)
            try:
                super().close()
            finally:
                self._f.close()


class _ScandirResult(object):
    def __init__(self, entries):
        self._entries = entries

    def __iter__(self):
        return iter(self._entries)

    def __enter__(self):
        return self

    def __exit__(self, *a):
        return False

    def close(self):
        pass


class World(object):
    """State of the simulated environment of one simulated process."""

    current = None

    def __init__(self, root, io_seed=0, short_reads=True, listdir_seed=0,
                 faults=(), platform_name='Linux'):
        self.root = os.path.abspath(root)
        self.io_seed = io_seed
        self.short_reads = short_reads
        self.listdir_seed = listdir_seed
        self.platform_name = platform_name
        # faults: dicts {"kind": "io_error", "op": read|write|open, "path": rel, "nth": n}
        self.faults = [dict(f) for f in faults if f.get('kind') == 'io_error']
        self._fault_counts = {}
        self.writelog = []
        self._open_raws = {}
        self._open_counts = {}
        self._listdir_counts = {}
        self.stats = {'raw_reads': 0, 'raw_writes': 0, 'opens': 0, 'short_read': 0,
                      'short_read_splits_multibyte': 0, 'listdir': 0, 'listdir_perm': 0,
                      'io_error': 0, 'unrouted_open': 0, 'gz_opens': 0}

    # -- paths
    def routed(self, file):
        try:
            p = os.path.abspath(os.fsdecode(file))
        except TypeError:
            return None
        if p == self.root or p.startswith(self.root + os.sep):
            return p
        return None

    def rel(self, path):
        p = os.path.abspath(path)
        if p.startswith(self.root):
            return '/sim' + p[len(self.root):]
        return p

    def real(self, simpath):
        """'/sim/...' -> real path under the root."""
        if simpath == '/sim' or simpath.startswith('/sim/'):
            return self.root + simpath[4:]
        return simpath

    # -- faults
    def fault_point(self, op, rel):
        if not self.faults:
            return
        key = (op, rel)
        n = self._fault_counts.get(key, 0) + 1
        self._fault_counts[key] = n
        for f in self.faults:
            if f['op'] == op and f['path'] == rel and f['nth'] == n:
                self.stats['io_error'] += 1
                raise OSError(errno.EIO, 'injected I/O error (%s #%d)' % (op, n), rel)

    # -- patched functions
    def sim_open(self, file, mode='r', buffering=-1, encoding=None, errors=None,
                 newline=None, closefd=True, opener=None):
        path = None
        if not isinstance(file, int):
            path = self.routed(file)
        if path is None:
            if not isinstance(file, int):
                self.stats['unrouted_open'] += 1
            return REAL_OPEN(file, mode, buffering, encoding, errors, newline,
                             closefd, opener)
        if not isinstance(mode, str):
            raise TypeError("invalid mode: %r" % mode)
        modes = set(mode)
        if modes - set("axrwb+tU") or len(mode) > len(modes):
            raise ValueError("invalid mode: %r" % mode)
        creating = "x" in modes
        reading = "r" in modes
        writing = "w" in modes
        appending = "a" in modes
        updating = "+" in modes
        text = "t" in modes
        binary = "b" in modes
        if text and binary:
            raise ValueError("can't have text and binary mode at once")
        if creating + reading + writing + appending > 1:
            raise ValueError("can't have read/write/append mode at once")
        if not (creating or reading or writing or appending):
            raise ValueError("must have exactly one of read/write/append mode")
        if binary and encoding is not None:
            raise ValueError("binary mode doesn't take an encoding argument")
        if binary and errors is not None:
            raise ValueError("binary mode doesn't take an errors argument")
        if binary and newline is not None:
            raise ValueError("binary mode doesn't take a newline argument")
        rawmode = ((creating and "x" or "") + (reading and "r" or "") +
                   (writing and "w" or "") + (appending and "a" or "") +
                   (updating and "+" or ""))
        rel = self.rel(path)
        self.stats['opens'] += 1
        if rel.endswith('.gz'):
            self.stats['gz_opens'] += 1
        self.fault_point('open', rel)
        nth = self._open_counts.get(rel, 0) + 1
        self._open_counts[rel] = nth
        raw = SimRaw(self, path, io.FileIO(path, rawmode, closefd, opener), nth)
        try:
            if buffering < 0 or buffering == 1:
                buffering = io.DEFAULT_BUFFER_SIZE
            if buffering == 0:
                if binary:
                    return raw
                raise ValueError("can't have unbuffered text I/O")
            if updating:
                buf = io.BufferedRandom(raw, buffering)
            elif creating or writing or appending:
                buf = io.BufferedWriter(raw, buffering)
            else:
                buf = io.BufferedReader(raw, buffering)
            if binary:
                return buf
            txt = io.TextIOWrapper(buf, encoding, errors, newline, False)
            txt.mode = mode
            return txt
        except BaseException:
            raw.close()
            raise

    def _perm(self, names, rel):
        names = sorted(names)
        n = self._listdir_counts.get(rel, 0) + 1
        self._listdir_counts[rel] = n
        rng = random.Random(stable_hash(self.listdir_seed, rel, n))
        out = list(names)
        rng.shuffle(out)
        self.stats['listdir'] += 1
        if out != names:
            self.stats['listdir_perm'] += 1
        return out

    def sim_listdir(self, path='.'):
        p = self.routed(path) if not isinstance(path, int) else None
        if p is None:
            return REAL_LISTDIR(path)
        names = REAL_LISTDIR(path)
        return self._perm(names, self.rel(p))

    def sim_scandir(self, path='.'):
        p = self.routed(path) if not isinstance(path, int) else None
        if p is None:
            return REAL_SCANDIR(path)
        with REAL_SCANDIR(path) as it:
            entries = {e.name: e for e in it}
        order = self._perm(list(entries), self.rel(p))
        return _ScandirResult([entries[n] for n in order])

    def sim_platform_system(self):
        return self.platform_name

    # -- activation
    def activate(self):
        World.current = self
        builtins.open = self.sim_open
        io.open = self.sim_open
        os.listdir = self.sim_listdir
        os.scandir = self.sim_scandir
        platform.system = self.sim_platform_system

    def deactivate(self):
        builtins.open = REAL_OPEN
        io.open = REAL_OPEN
        os.listdir = REAL_LISTDIR
        os.scandir = REAL_SCANDIR
        platform.system = REAL_PLATFORM_SYSTEM
        World.current = None

    def unclosed(self):
        return sorted(self._open_raws.values())
