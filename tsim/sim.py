"""Worker side: simulated processes are forks of a pristine interpreter.

Sim.run(spec, hs=0) executes a process spec in a fresh simulated process and returns its
observations.  hs=1 forwards the spec to a companion interpreter started with the second
PYTHONHASHSEED of the run (fault kind K3), which forks in the same way.
"""
import os
import pickle
import select
import shutil
import signal
import struct
import subprocess
import sys
import time
import traceback

from . import simproc

HERE = os.path.dirname(os.path.abspath(__file__))


def scratch_base():
    for cand in ('/dev/shm', os.environ.get('TMPDIR') or '/tmp'):
        if os.path.isdir(cand) and os.access(cand, os.W_OK):
            return os.path.join(cand, 'tsim-%d' % os.getuid())
    raise RuntimeError('no scratch directory')


def send_msg(f, obj):
    data = pickle.dumps(obj, protocol=4)
    f.write(struct.pack('<Q', len(data)))
    f.write(data)
    f.flush()


def recv_msg(f):
    hdr = f.read(8)
    if len(hdr) < 8:
        raise EOFError('peer closed')
    (n,) = struct.unpack('<Q', hdr)
    data = b''
    while len(data) < n:
        chunk = f.read(n - len(data))
        if not chunk:
            raise EOFError('peer closed mid-message')
        data += chunk
    return pickle.loads(data)


class HarnessError(Exception):
    pass


class Sim(object):
    def __init__(self, repo_path, hashseeds=(0, 1), want_companion=True):
        self.repo_path = os.path.abspath(repo_path)
        self.hashseeds = tuple(hashseeds)
        self.repo = simproc.Repo(self.repo_path)     # pristine: imported, never called
        self.base = scratch_base()
        os.makedirs(self.base, exist_ok=True)
        self.counter = 0
        self.want_companion = want_companion
        self.companion = None
        self.nproc = 0
        self.nhang = 0
        self.cover = False
        self._sweep()

    def _sweep(self):
        """Remove scratch directories left behind by simulated processes whose worker died."""
        try:
            for name in os.listdir(self.base):
                if name.startswith('p') and '-' in name:
                    pid = name[1:].split('-')[0]
                    if pid.isdigit() and not os.path.exists('/proc/%s' % pid):
                        shutil.rmtree(os.path.join(self.base, name), ignore_errors=True)
        except OSError:
            pass

    # ------------------------------------------------------------ local fork
    def _run_local(self, spec):
        self.counter += 1
        self.nproc += 1
        root = os.path.join(self.base, 'p%d-%d' % (os.getpid(), self.counter))
        r, w = os.pipe()
        sys.stdout.flush()
        sys.stderr.flush()
        pid = os.fork()
        if pid == 0:
            status = 0
            try:
                os.close(r)
                try:
                    os.makedirs(root)
                    obs = simproc.run_process(self.repo, spec, root)
                    data = pickle.dumps(('ok', obs), protocol=4)
                except BaseException:
                    data = pickle.dumps(('err', traceback.format_exc()), protocol=4)
                signal.alarm(0)
                view = memoryview(data)
                while view:
                    n = os.write(w, view[:1 << 16])
                    view = view[n:]
                os.close(w)
            except BaseException:
                status = 3
            finally:
                try:
                    os.chdir('/')
                    shutil.rmtree(root, ignore_errors=True)
                finally:
                    os._exit(status)
        os.close(w)
        deadline = time.monotonic() + spec.get('alarm', 30) + 15
        chunks = []
        killed = False
        while True:
            left = deadline - time.monotonic()
            if left <= 0:
                killed = True
                break
            rl, _, _ = select.select([r], [], [], left)
            if not rl:
                killed = True
                break
            c = os.read(r, 1 << 20)
            if not c:
                break
            chunks.append(c)
        os.close(r)
        if killed:
            try:
                os.kill(pid, signal.SIGKILL)
            except OSError:
                pass
        os.waitpid(pid, 0)
        if killed:
            shutil.rmtree(root, ignore_errors=True)
            self.nhang += 1
            return {'hang': True, 'killed': True, 'sessions': {}, 'session_ids': [],
                    'trace': [], 'steps': 0, 'stats': {}, 'files': {}, 'writelog': [],
                    'unclosed_at_return': [], 'unclosed_at_exit': []}
        try:
            tag, val = pickle.loads(b''.join(chunks))
        except Exception as e:
            shutil.rmtree(root, ignore_errors=True)
            raise HarnessError('simulated process died without a result: %r' % (e,))
        if tag != 'ok':
            raise HarnessError('harness exception in simulated process:\n' + val)
        return val

    # ------------------------------------------------------------ companion
    def _companion(self):
        if self.companion is None:
            env = dict(os.environ)
            env['PYTHONHASHSEED'] = str(self.hashseeds[1])
            env['PYTHONDONTWRITEBYTECODE'] = '1'
            self.companion = subprocess.Popen(
                [sys.executable, os.path.join(HERE, 'worker.py'), '--companion',
                 '--repo', self.repo_path],
                stdin=subprocess.PIPE, stdout=subprocess.PIPE, env=env)
        return self.companion

    def run(self, spec, hs=0):
        if self.cover and 'cover' not in spec:
            spec = dict(spec, cover=True)
        if hs == 0 or not self.want_companion:
            return self._run_local(spec)
        c = self._companion()
        send_msg(c.stdin, spec)
        tag, val = recv_msg(c.stdout)
        if tag != 'ok':
            raise HarnessError('companion: ' + val)
        return val

    # ------------------------------------------------------------ real processes
    def run_real(self, spec, timeout=120):
        """Stub-fidelity cross-check: the `cli` ops of a spec executed as REAL processes
        (`python <repo>/treetools ...`, one exec per command, session after session) in a
        private real directory, with none of the seams installed.  Returns the exit status per
        command and the files left behind, in the shape of run()'s observations."""
        self.counter += 1
        root = os.path.join(self.base, 'p%d-%dreal' % (os.getpid(), self.counter))
        w = os.path.join(root, 'w')
        tmp = os.path.join(root, 'tmp')
        os.makedirs(w)
        os.makedirs(tmp)

        def real(v):
            if isinstance(v, str) and (v == '/sim' or v.startswith('/sim/')):
                return root + v[4:]
            if isinstance(v, str) and ':/sim/' in v:
                k, _, rest = v.partition(':')
                return k + ':' + root + rest[4:]
            return v
        try:
            for d in spec.get('dirs', ()):
                os.makedirs(real(d), exist_ok=True)
            inputs = spec.get('files', {})
            for path, data in sorted(inputs.items()):
                rp = real(path)
                os.makedirs(os.path.dirname(rp), exist_ok=True)
                with open(rp, 'wb') as f:
                    f.write(data)
            env = dict(os.environ)
            env['PYTHONHASHSEED'] = str(self.hashseeds[0])
            env['PYTHONDONTWRITEBYTECODE'] = '1'
            env['TMPDIR'] = tmp
            recs = {}
            for sess in spec['sessions']:
                out = recs.setdefault(sess.get('id', 's0'), [])
                for op in sess['ops']:
                    if op[0] != 'cli':
                        raise HarnessError('run_real: only cli ops, got %r' % (op[0],))
                    argv = [sys.executable, os.path.join(self.repo_path, 'treetools')] \
                        + [real(a) for a in op[1]]
                    try:
                        r = subprocess.run(argv, cwd=w, env=env, stdin=subprocess.DEVNULL,
                                           capture_output=True, timeout=timeout)
                        out.append({'op': 'cli', 'ok': {'exit': r.returncode},
                                    'out': r.stdout.decode('utf-8', 'replace')
                                    .replace(root, '/sim'),
                                    'stderr_tail': r.stderr[-300:].decode('utf-8', 'replace')
                                    .replace(root, '/sim')})
                    except subprocess.TimeoutExpired:
                        out.append({'op': 'cli', 'exc': 'Timeout'})
            files = {}
            for dirpath, dirnames, filenames in os.walk(root):
                dirnames.sort()
                for fn in sorted(filenames):
                    rp = os.path.join(dirpath, fn)
                    rel = '/sim' + rp[len(root):]
                    if rel.startswith('/sim/tmp/'):
                        continue
                    with open(rp, 'rb') as f:
                        data = f.read()
                    if rel in inputs and inputs[rel] == data:
                        continue
                    files[rel] = data
            return {'sessions': recs, 'files': files}
        finally:
            shutil.rmtree(root, ignore_errors=True)

    def close(self):
        if self.companion is not None:
            try:
                self.companion.stdin.close()
                self.companion.wait(timeout=10)
            except Exception:
                self.companion.kill()
            self.companion = None
