"""C17 - output splitting partitions the treebank in order into well-formed parts.

Simulated: the real `treetools transform SRC DEST --split SPEC` over the simulated file
system; the write log and the final files are the recorded history.  A sibling simulated
process runs the same command without --split.  Oracle: file set, reference integer
arithmetic for the part sizes, exactly-once and order (concatenation of the decoded parts =
decoded unsplit output), each part a complete document accepted by the tool's own reader,
rejection of malformed / over-demanding specifications.
"""
import random

from .. import model, treeview, views
from .. import refcodec as rc
from . import common as cm
from . import c03

ID = "C17"
RULE = ("scenario = seeded treebank of 0..12 (thorough: ..30) sentences, split specification of "
        "1-4 parts (N#, N%, at most one rest; 25% malformed or over-demanding ones), seeded "
        "output format, optional filter_by_length that drops trees, plus direct calls of the "
        "specification arithmetic with sizes up to 10000. Distinct = distinct (spec shape, "
        "size, format, filter). Non-trivial = >= 2 parts and >= 2 trees.")
ASSUMPTIONS = ["rejection = any exception / non-zero exit; nothing is required of the files then",
               "percentages are rounded down in exact integer arithmetic (floor(N*size/100))"]


def budget(tier):
    return 4000 if tier == "quick" else 250000


def ref_sizes(spec, size):
    """Reference arithmetic.  Returns list of sizes or 'REJECT'."""
    parts = []
    rest = None
    for i, p in enumerate(spec.split("_")):
        if p == "rest":
            if rest is not None:
                return "REJECT"
            rest = i
            parts.append(0)
            continue
        if len(p) < 2 or p[-1] not in "#%" or not p[:-1].isdigit():
            return "REJECT"
        n = int(p[:-1])
        parts.append(n if p[-1] == "#" else (n * size) // 100)
    total = sum(parts)
    if total > size:
        return "REJECT"
    diff = size - total
    if rest is not None:
        parts[rest] = diff
    elif diff > 0:
        parts[parts.index(max(parts))] += diff
    return parts


def reject_reason(spec, size):
    rests = 0
    for p in spec.split("_"):
        if p == "rest":
            rests += 1
            if rests > 1:
                return "two-rest"
            continue
        if p == "":
            return "empty-part"
        if p[-1:] in "#%" and p[:-1].startswith("-") and p[1:-1].isdigit():
            return "negative-part"
        if len(p) < 2 or p[-1] not in "#%" or not p[:-1].isdigit():
            return "malformed-part"
    return "over-demanding"


def gen_spec(rng, size):
    nparts = rng.choice([1, 2, 2, 3, 4])
    kind = rng.random()
    parts = []
    if kind < 0.75:
        # well formed, usually satisfiable
        remaining = size
        rest_at = rng.randrange(nparts) if rng.random() < 0.5 else None
        for i in range(nparts):
            if i == rest_at:
                parts.append("rest")
            elif rng.random() < 0.5:
                n = rng.randint(0, max(0, remaining)) if rng.random() < 0.85 else \
                    rng.randint(0, size + 3)
                parts.append("%d#" % n)
                remaining -= n
            else:
                pct = rng.choice([0, 10, 20, 25, 29, 33, 50, 58, 70, 75, 100, rng.randint(0, 100)])
                if rng.random() < 0.85 and size:
                    pct = min(pct, max(0, (100 * remaining) // size))
                parts.append("%d%%" % pct)
                remaining -= (pct * size) // 100
    else:
        for i in range(nparts):
            parts.append(rng.choice(["rest", "rest", "-3#", "2.5#", "", "x#", "150%", "-10%",
                                     "5", "#", "%d#" % (size + 2), "3#", "20%"]))
    return "_".join(parts)


def generate(seed, tier):
    rng = random.Random(seed)
    size = rng.choice([0, 1, 2, 3, 5, 8, 10, 12] if tier == "quick" else
                      [0, 1, 2, 3, 5, 8, 10, 12, 20, 30])
    src_fmt = rng.choice(["export", "export", "tigerxml", "discobrackets"])
    dest_fmt = rng.choice(c03.DEST_FORMATS)
    src_enc = rng.choice(["utf-8", "utf-8", "latin-1", "utf-16"])
    dest_enc = rng.choice(["utf-8", "utf-8", "latin-1", "utf-16", "cp1252", "iso-8859-15"])
    k = model.swarm_knobs(rng, tier, allow=("ascii", "latin1"),
                          continuous=(dest_fmt == "brackets"))
    k["n_max"] = rng.choice([1, 2, 4, 6])
    if src_fmt in ("export", "tigerxml") and rng.random() < 0.2:
        k["pos_paren"] = True
        k["punct"], k["pair"] = max(k["punct"], 0.2), max(k["pair"], 0.15)
    tb = model.gen_treebank(rng, k, nsent=size, sid_pattern="consecutive")
    flt = None
    if rng.random() < 0.35:
        flt = {"filteroperator": rng.choice(["lt", "gt", "eq"]), "filtervalue": rng.randint(1, 5)}
    dopts = {}
    if dest_fmt == "export" and rng.random() < 0.4:
        dopts["export_four"] = True
    spec = gen_spec(rng, size)
    if spec == "":
        spec = "rest"           # an empty --split value means "no splitting"
    calls = []
    for _ in range(rng.choice([0, 2, 4])):
        n = rng.choice([100, 90, 50, 1000, 10000, rng.randint(0, 10000)])
        calls.append([gen_spec(rng, n), n])
        if rng.random() < 0.4:
            # the same specification again, for a treebank of another size
            calls.append([calls[-1][0], rng.choice([n + 3, max(0, n - 2), 7, 2 * n])])
    dest_name = rng.choice(["d", "d", "d", "tb_50%_rest", "out%d", "a%%b", "x.y-z", "ü",
                            "d.gz", "tb.export.gz"])
    before = None
    if rng.random() < 0.3:
        # an earlier split run in the same process, mostly one that is rejected after reading
        before = rng.choice(["%d#_rest" % (size + rng.randint(1, 5)), "50%_60%", "abc", "3#_x",
                             "rest", "1#_rest" if size else "rest"])
    before_filter = None
    if before is not None and flt is not None and rng.random() < 0.6:
        # the earlier run filters with the same operator and another value
        before_filter = dict(flt, filtervalue=flt["filtervalue"] + rng.choice([-2, -1, 1, 2, 3]))
    # the source may be a part of an earlier split with the same destination name
    src_is_part = rng.random() < 0.1
    # a transformation that hands back another root object than it was given
    pre_trans = ["add_topnode"] if rng.random() < 0.12 else None
    return {"pre_trans": pre_trans, "tb": tb, "before": before, "before_filter": before_filter,
            "src_is_part": src_is_part, "src_fmt": src_fmt, "dest_fmt": dest_fmt, "dopts": dopts, "spec": spec,
            "filter": flt, "calls": calls, "layout": rng.randrange(1 << 30),
            "src_enc": src_enc, "dest_enc": dest_enc, "dest_name": dest_name,
            "io_seed": rng.randrange(1 << 30)}


def src_path(sc):
    if sc.get("src_is_part"):
        return "/sim/w/out/%s.0" % sc.get("dest_name", "d")
    return "/sim/w/src"


def argv(sc, split):
    a = ["transform", src_path(sc), "/sim/w/out/" + sc.get("dest_name", "d"), "--src-format",
         sc["src_fmt"],
         "--dest-format", sc["dest_fmt"], "--src-opts", "quiet",
         "--src-enc", sc.get("src_enc", "utf-8"), "--dest-enc", sc.get("dest_enc", "utf-8")]
    if sc["dopts"]:
        a += ["--dest-opts"] + c03.optlist(sc["dopts"])
    pre = list(sc.get("pre_trans") or [])
    if sc["filter"]:
        a += ["--trans"] + pre + ["filter_by_length", "--params",
                                  "filteroperator:%s" % sc["filter"]["filteroperator"],
                                  "filtervalue:%d" % sc["filter"]["filtervalue"]]
    elif pre:
        a += ["--trans"] + pre
    if split:
        a += ["--split", sc["spec"]]
    return a


def specsig(spec):
    out = []
    for p in spec.split("_"):
        if p == "rest":
            out.append("rest")
        elif p[-1:] == "#" and p[:-1].isdigit():
            out.append("#")
        elif p[-1:] == "%" and p[:-1].isdigit():
            out.append("%")
        else:
            out.append("bad")
    return "_".join(out)


def execute(sc, sim):
    st = cm.Stats()
    st.declare("spec_rejected", "remainder_to_largest_part", "tie_for_largest_part",
               "empty_part", "filter_dropped_trees", "size_zero_treebank", "percent_part",
               "rest_part", "arithmetic_calls", "earlier_split_run_in_same_process",
               "earlier_split_run_failed")
    viols = []
    tb = sc["tb"]
    codec = {"export": "export4", "tigerxml": "tigerxml",
             "discobrackets": "discobrackets"}[sc["src_fmt"]]
    senc, denc = sc.get("src_enc", "utf-8"), sc.get("dest_enc", "utf-8")
    src = cm.render_file({"tb": tb, "codec": codec, "layout": sc["layout"], "enc": senc})
    if not tb and sc["src_fmt"] == "tigerxml":
        src = b"<?xml version='1.0'?>\n<corpus><body></body></corpus>"
    # ---- arithmetic through the API (larger sizes)
    if sc["calls"]:
        ops = [["call", "split_spec", s, n] for s, n in sc["calls"]]
        obs = sim.run({"sessions": [{"id": "a", "ops": ops, "on_error": "continue"}]})
        st.add_obs(obs)
        for (s, n), rec in zip(sc["calls"], obs["sessions"]["a"]):
            st.probe("arithmetic_calls")
            v = judge_sizes(s, n, rec, "api")
            if v:
                return done(sc, st, [v])
    # ---- what reaches the writer
    kept = [s for s in tb if ref_keep(s, sc["filter"])]
    if len(kept) < len(tb):
        st.probe("filter_dropped_trees")
    if not tb:
        st.probe("size_zero_treebank")
    size = len(kept)
    want = ref_sizes(sc["spec"], size)
    try:
        rv = views.read_view(tb, sc["src_fmt"], codec, {}, {})     # ids as the reader assigns
        rv = [r for r, s in zip(rv, tb) if ref_keep(s, sc["filter"])]
        wv = views.write_view(rv, sc["dest_fmt"], sc["dopts"])
        refusal = False
    except views.Refusal:
        refusal = True
        wv = None
    base = {"files": {src_path(sc): src}, "dirs": ["/sim/w/out", "/sim/w/pre"],
            "io_seed": sc["io_seed"], "harvest_inputs": bool(sc.get("src_is_part"))}
    ops = [["cli", argv(sc, True)]]
    if sc.get("before"):
        st.probe("earlier_split_run_in_same_process")
        st.fault("history")
        pre = argv(dict(sc, spec=sc["before"], filter=sc.get("before_filter") or sc["filter"]),
                   True)
        pre[2] = "/sim/w/pre/p"
        ops.insert(0, ["cli", pre])
    spec = dict(base, sessions=[{"id": "c", "ops": ops, "on_error": "continue"}])
    obs = sim.run(spec)
    st.add_obs(obs)
    if sc["io_seed"] % 50 == 0:
        cm.real_crosscheck(sim, st, spec, obs)
    if len(obs["sessions"]["c"]) != len(ops) and not obs.get("hang"):
        return done(sc, st, [cm.viol("C17/second-run-missing")])
    rec = obs["sessions"]["c"][-1] if obs["sessions"]["c"] else {"exc": "hang"}
    if sc.get("before") and len(obs["sessions"]["c"]) == 2:
        r0 = obs["sessions"]["c"][0]
        if "exc" in r0 or r0["ok"].get("exit") != 0:
            st.probe("earlier_split_run_failed")
    failed = "exc" in rec or rec["ok"].get("exit") != 0
    if obs.get("hang"):
        return done(sc, st, [cm.viol("C17/hang", spec=sc["spec"])])
    if want == "REJECT":
        st.probe("spec_rejected")
        if not failed:
            return done(sc, st, [cm.viol("C17/spec-not-rejected/%s"
                                         % reject_reason(sc["spec"], size),
                                         spec=sc["spec"], size=size,
                                         files=sorted(obs["files"]))])
        return done(sc, st, viols)
    if refusal:
        if not failed:
            viols.append(cm.viol("C17/refusal-missing/discontinuous-to-brackets"))
        return done(sc, st, viols)
    if failed and sc.get("pre_trans"):
        # does the same command fail without --split as well?  Then the pipeline cannot be
        # written in this format at all, which is not a matter of splitting
        obs0 = sim.run(dict(base, sessions=[{"id": "c", "ops": [["cli", argv(sc, False)]]}]))
        st.add_obs(obs0)
        r0_ = obs0["sessions"]["c"][0] if obs0["sessions"]["c"] else {"exc": "hang"}
        if "exc" in r0_ or r0_["ok"].get("exit") != 0:
            st.probe("command_fails_without_split_too")
            return done(sc, st, viols)
    if failed:
        return done(sc, st, [cm.viol("C17/command-failed/%s/%s" % (sc["dest_fmt"],
                                                                   rec.get("exc") or "exit"),
                                     msg=rec.get("msg"), spec=sc["spec"], size=size)])
    if "%" in sc["spec"]:
        st.probe("percent_part")
    if "rest" in sc["spec"]:
        st.probe("rest_part")
    if 0 in want:
        st.probe("empty_part")
    if "rest" not in sc["spec"] and sum(ref_raw(sc["spec"], size)) < size:
        st.probe("remainder_to_largest_part")
        raw = ref_raw(sc["spec"], size)
        if raw.count(max(raw)) > 1:
            st.probe("tie_for_largest_part")
    # ---- history: the file set
    outs = sorted(p for p in obs["files"] if p.startswith("/sim/w/out/"))
    dn = "/sim/w/out/" + sc.get("dest_name", "d")
    expect_files = [dn + ".%d" % i for i in range(len(want))]
    if outs != sorted(expect_files):
        return done(sc, st, [cm.viol("C17/file-set", expected=expect_files, got=outs,
                                     spec=sc["spec"])])
    # ---- each part: a complete document of the format, sizes, content
    fmt = sc["dest_fmt"]
    step = {"src_fmt": sc["src_fmt"], "dest_fmt": fmt, "dest_enc": denc, "dopts": sc["dopts"],
            "sopts": {}}
    decoded = []
    for i, p in enumerate(expect_files):
        try:
            dec = c03.decode_dest(obs["files"][p], fmt, denc, sc["dopts"])
        except rc.DecodeError as e:
            return done(sc, st, [cm.viol("C17/part-not-a-document/%s" % fmt, part=i,
                                         error=str(e)[:200], size=want[i])])
        decoded.append(dec)
        st.check("parts_decoded")
    got_sizes = [len(d) for d in decoded]
    if got_sizes != want:
        return done(sc, st, [cm.viol("C17/part-sizes/%s" % ("with-percent" if "%" in sc["spec"]
                                                               else "absolute"),
                                     spec=sc["spec"], size=size, expected=want, got=got_sizes)])
    # exactly-once and order: concatenation = unsplit output of a sibling process
    obs2 = sim.run(dict(base, sessions=[{"id": "c", "ops": [["cli", argv(sc, False)]]}]))
    st.add_obs(obs2)
    rec2 = obs2["sessions"]["c"][0]
    if "exc" in rec2 or rec2["ok"].get("exit") != 0 or dn not in obs2["files"]:
        st.probe("unsplit_reference_run_failed")
        return done(sc, st, viols)
    try:
        whole = c03.decode_dest(obs2["files"][dn], fmt, denc, sc["dopts"])
    except rc.DecodeError:
        st.probe("unsplit_reference_run_failed")
        return done(sc, st, viols)
    concat = [x for d in decoded for x in d]
    st.check("concatenations_compared")
    if fmt == "terminals":
        same = concat == whole
    else:
        same = len(concat) == len(whole) and all(
            views.compare(a, b) is None and views.compare(b, a) is None
            for a, b in zip(whole, concat))
    if not same:
        return done(sc, st, [cm.viol("C17/parts-differ-from-unsplit-output/%s" % fmt,
                                     spec=sc["spec"], sizes=got_sizes, unsplit=len(whole))])
    # the model agrees with the unsplit output (ties the check to the treebank, not only to
    # the tool's own unsplit run)
    if sc.get("pre_trans"):
        # a transformation that returns a new root ran before the split: what the parts must
        # hold is what the unsplit run writes (compared above); the model is not consulted
        st.probe("root_replacing_transformation_before_split")
    elif fmt != "terminals" and len(whole) == len(wv):
        for a, b in zip(wv, whole):
            d = views.compare(a, b)
            if d:
                return done(sc, st, [cm.viol("C17/unsplit-output-differs-from-model/%s/%s"
                                             % (fmt, d[0]), diff=d[1])])
    # own reader accepts every part
    if fmt != "terminals":
        for i, p in enumerate(expect_files):
            if want[i] == 0 and fmt != "tigerxml":
                continue
            v = c03.own_reader(sim, step, p, obs["files"][p], st, {"io_seed": sc["io_seed"],
                                                                   "short_reads": True})
            if v:
                v["sig"] = v["sig"].replace("C03/", "C17/part-")
                v["detail"]["part"] = i
                return done(sc, st, [v])
    return done(sc, st, viols)


def ref_keep(s, flt):
    if not flt:
        return True
    n = len(s["tokens"])
    op, val = flt["filteroperator"], flt["filtervalue"]
    return not ((op == "lt" and n < val) or (op == "gt" and n > val) or (op == "eq" and n == val))


def ref_raw(spec, size):
    out = []
    for p in spec.split("_"):
        if p == "rest":
            out.append(0)
        elif p[-1] == "#":
            out.append(int(p[:-1]))
        else:
            out.append((int(p[:-1]) * size) // 100)
    return out


def judge_sizes(spec, size, rec, path):
    want = ref_sizes(spec, size)
    if want == "REJECT":
        if "exc" not in rec:
            return cm.viol("C17/spec-not-rejected/%s" % reject_reason(spec, size), spec=spec,
                           size=size, got=rec.get("ok"), path=path)
        return None
    if "exc" in rec:
        return cm.viol("C17/valid-spec-rejected", spec=spec, size=size,
                       exc=rec["exc"], path=path)
    if rec["ok"] != want:
        return cm.viol("C17/part-sizes/%s" % ("with-percent" if "%" in spec else "absolute"),
                       spec=spec, size=size, expected=want, got=rec["ok"], path=path)
    return None


def done(sc, st, viols):
    shape = (specsig(sc["spec"]), len(sc["tb"]), sc["dest_fmt"], sc["src_fmt"],
             bool(sc["filter"]), "+".join(sorted(sc["dopts"])))
    nontrivial = len(sc["spec"].split("_")) >= 2 and len(sc["tb"]) >= 2
    sample = {"spec": sc["spec"], "size": len(sc["tb"]), "dest_fmt": sc["dest_fmt"],
              "filter": sc["filter"], "api_calls": sc["calls"][:2]}
    return {"violations": viols, "stats": st.done(repr(shape), nontrivial, sample)}


def shrink_candidates(sc):
    if sc["calls"]:
        for i in range(len(sc["calls"])):
            c = model.clone(sc)
            del c["calls"][i]
            yield c
        for i, (s, n) in enumerate(sc["calls"]):
            parts = s.split("_")
            if len(parts) > 1:
                for j in range(len(parts)):
                    c = model.clone(sc)
                    c["calls"][i][0] = "_".join(parts[:j] + parts[j + 1:])
                    yield c
            for n2 in (n // 2, n - 1, 100, 10):
                if 0 <= n2 < n:
                    c = model.clone(sc)
                    c["calls"][i][1] = n2
                    yield c
    if sc.get("before"):
        c = model.clone(sc)
        c["before"] = None
        yield c
    if sc["filter"]:
        c = model.clone(sc)
        c["filter"] = None
        yield c
    parts = sc["spec"].split("_")
    if len(parts) > 1:
        for j in range(len(parts)):
            c = model.clone(sc)
            c["spec"] = "_".join(parts[:j] + parts[j + 1:])
            yield c
    for k in sorted(sc["dopts"]):
        c = model.clone(sc)
        del c["dopts"][k]
        yield c
    if sc.get("dest_name", "d") != "d":
        c = model.clone(sc)
        c["dest_name"] = "d"
        yield c
    for key in ("src_enc", "dest_enc"):
        if sc.get(key, "utf-8") != "utf-8":
            c = model.clone(sc)
            c[key] = "utf-8"
            yield c
    if sc["src_fmt"] != "export":
        c = model.clone(sc)
        c["src_fmt"] = "export"
        yield c
    for tb in model.shrink_treebank(sc["tb"]):
        c = model.clone(sc)
        c["tb"] = tb
        for i, s in enumerate(c["tb"]):
            s["sid"] = i + 1
        yield c
