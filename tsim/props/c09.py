"""C09 - written grammar and lexicon files decode to exactly the grammar in memory.

Simulated: grammar output is a multi-file write (2 files for pmcfg/rcg, 5 for lopar) on the
simulated file system, through the API and through the real `grammar` command, with
dest encodings, lex_in_grammar, two hash seeds (set-valued LoPar files), short reads when the
tool's own RCG reader reads the files back, and the `grammar` command fed with a grammar file.
Oracle: independent decoders (tsim/refgram.py) against the in-memory grammar dumped before
the writer ran; own-reader round trip; write-log history (file set complete, closed, nothing
else touched).
"""
import random

from .. import model, refgram
from . import common as cm
from . import c08

ID = "C09"
RULE = ("scenario = seeded treebank -> grammar (raw or binarized in a seeded mode) written in one "
        "of pmcfg/rcg/lopar through the API or the `grammar` command with a seeded encoding and "
        "lex_in_grammar, re-read by the own RCG reader / re-emitted by `grammar --src-format rcg`, "
        "repeated under a second hash seed for lopar. Distinct = distinct (format, path, mode, "
        "encoding, options, shape class). Non-trivial = some rule count > 1 or an ambiguous word "
        "or a non-ASCII word or fan-out > 1.")
ASSUMPTIONS = ["labels and words are drawn from what the formats can carry (no whitespace, no "
               "parentheses; no trailing digit where RCG arity suffixes would be ambiguous)",
               "platform.system is stubbed to Linux (LoPar writer is gated on it); a few "
               "scenarios stub another value, where refusal is the documented behaviour"]


def budget(tier):
    return 6000 if tier == "quick" else 300000


def generate(seed, tier):
    rng = random.Random(seed)
    fmt = rng.choice(["pmcfg", "rcg", "rcg", "lopar"])
    enc = rng.choice(["utf-8", "utf-8", "latin-1", "utf-16"])
    allow = ["ascii", "latin1"] + (["wide"] if enc != "latin-1" else [])
    k = model.swarm_knobs(rng, tier, allow=allow, continuous=(fmt == "lopar"
                                                             and rng.random() < 0.85))
    k["labels"] = model.LABELS[:rng.choice([1, 2, 3, 6])]
    k["pos"] = model.POS[:rng.choice([1, 2, 3])]
    k["vocab"] = rng.choice([2, 3, 100])
    k["n_max"] = rng.choice([2, 3, 5, 8, 12, 14])
    if k["n_max"] >= 12:
        k["n_min"] = 11
        k["flat"] = rng.choice([0.3, 0.7])          # rules with more than ten variables
        k["arity"] = 12
    tb = model.gen_treebank(rng, k, nsent=rng.choice([1, 2, 3, 5]))
    model.add_twins(rng, tb, k, p=0.3)
    if fmt != "lopar" and rng.random() < 0.05:
        tb.append(model.comb_sentence(rng, rng.choice([9, 10, 12]), sid=801))   # fan-out >= 10
    for s in tb:
        for t in s["tokens"]:
            if t[0] and t[0][-1].isdigit():
                t[0] = t[0] + "a"
            r = rng.random()
            if r < 0.12:
                t[0] = t[0][:1].upper() + t[0][1:]
            elif r < 0.18:
                t[0] = t[0].upper()                      # USA
            elif r < 0.22 and len(t[0]) > 2:
                t[0] = t[0][:1].upper() + t[0][1:2] + t[0][2:3].upper() + t[0][3:]   # McDonald
            elif r < 0.25:
                t[0] = t[0][:1] + t[0][1:].upper()       # iPHONE
    unencodable = False
    if enc == "latin-1" and rng.random() < 0.08 and tb:
        tb[0]["tokens"][0][0] = rng.choice(["Dvořák", "łódź", "中文"])
        unencodable = True
    mode = None
    if rng.random() < 0.6:
        mode = c08.gen_mode(rng)
    path = rng.choice(["api", "api", "cli"])
    if fmt == "lopar" and path == "api" and rng.random() < 0.6:
        for s in tb:
            # several start symbols; some of them also occur inside other trees
            s["root"][0] = rng.choice(["VROOT", "TOP", "FRAG", "ROOT"] + k["labels"][:2])
    opts = {}
    if fmt in ("pmcfg", "rcg") and rng.random() < 0.3:
        # options are flags: what counts is that the key is given, whatever its value
        opts["lex_in_grammar"] = rng.choice([True, True, 0, 1, "yes"])
    platform = "Linux"
    if fmt == "lopar" and rng.random() < 0.08:
        platform = rng.choice(["Darwin", "Windows"])
    prior = []
    if path == "api" and rng.random() < 0.3 and not unencodable:
        prior = [model.gen_treebank(rng, k, nsent=rng.choice([1, 2]))
                 for _ in range(rng.choice([1, 3, 6]))]
        for ptb in prior:
            for s in ptb:
                for t in s["tokens"]:
                    if t[0] and t[0][-1].isdigit():
                        t[0] = t[0] + "a"
    second = None
    if path == "api" and fmt != "lopar" and rng.random() < 0.3:
        second = {"fmt": rng.choice(["pmcfg", "rcg"]),
                  "opts": {"lex_in_grammar": True} if rng.random() < 0.5 else {}}
    grow = []
    if fmt == "lopar" and path == "api" and mode is None and not prior and not unencodable \
            and platform == "Linux" and rng.random() < 0.5:
        # the caller goes on extracting into the grammar it has just written and writes again
        for x in tb[:3]:
            g = model.gap_twin(rng, x) if rng.random() < 0.7 else model.clone(x)
            if g is not None:
                grow.append(g)
    return {"tb": tb, "fmt": fmt, "enc": enc, "mode": mode, "path": path, "opts": opts,
            "grow": grow,
            "second_write": second if not unencodable else None, "unencodable": unencodable,
            "extra": (model.gen_treebank(rng, k, nsent=rng.choice([1, 2]))
                      if rng.random() < 0.3 else []),
            "prior": prior, "prefix": rng.choice(["g", "g", "g.bin", "negra.train", "gram.v2"]),
            "strip_newline": rng.random() < 0.3,
            "platform": platform, "reread": rng.random() < 0.6, "shuffle": rng.randrange(1 << 30),
            "layout": rng.randrange(1 << 30), "io_seed": rng.randrange(1 << 30),
            "src": rng.choice(["export", "tigerxml"])}


OUT = "/sim/w/out/g"          # replaced per scenario by out_prefix(sc)


def out_prefix(sc):
    return "/sim/w/out/" + sc.get("prefix", "g")


FILES = {"pmcfg": [".pmcfg", ".lex"], "rcg": [".rcg", ".lex"],
         "lopar": [".gram", ".lex", ".start", ".oc", ".OC"]}


def prior_ops(sc):
    """Earlier, unrelated grammars extracted, written and dropped in the same process."""
    ops = []
    for j, tb in enumerate(sc.get("prior", [])):
        ops.append(["gnew", "p"])
        for i, s in enumerate(tb):
            ops.append(["build", "t", s, 77 + i])
            ops.append(["extract", "t", "p"])
        ops.append(["gwrite", sc["fmt"] if sc["fmt"] != "lopar" else "pmcfg", "p",
                    "/sim/w/prior/p%d" % j, sc["enc"], sc["opts"]])
        ops.append(["gnew", "p"])
    return ops


def api_ops(sc, write=True):
    ops = [["gnew", "g"]]
    for j, s in enumerate(sc["tb"]):
        ops.append(["build", "t", s, sc["shuffle"] + j])
        ops.append(["extract", "t", "g"])
    var = "g"
    if sc["mode"] is not None:
        ops.append(["gbin", "g", "b", sc["mode"]["reordering"], sc["mode"]["markov"]])
        var = "b"
    ops.append(["gdump", var])
    if write:
        ops.append(["gwrite", sc["fmt"], var, OUT, sc["enc"], sc["opts"]])
        if sc.get("second_write"):
            # the caller writes the same grammar object once more (another format / options)
            sw = sc["second_write"]
            ops.append(["gwrite", sw["fmt"], var, "/sim/w/out2/g", sc["enc"], sw["opts"]])
    return ops


def cli_argv(sc):
    gramtype = "treebank"
    argv = []
    if sc["mode"] is not None:
        gramtype = "leftright" if sc["mode"]["reordering"] == "none" else "optimal"
    argv = ["grammar", "/sim/w/tb.src", OUT, gramtype, "--src-format", sc["src"],
            "--dest-format", sc["fmt"], "--dest-enc", sc["enc"], "--src-opts", "quiet"]
    if sc["mode"] is not None and sc["mode"]["markov"] is not None:
        m = sc["mode"]["markov"]
        argv += ["--markov", "v:%d" % m["v"], "h:%d" % m["h"]] + \
            (["nofanout"] if "nofanout" in m else [])
    if sc["opts"]:
        argv += ["--dest-opts"] + ["%s:%s" % (k_, v_) if v_ is not True else k_
                                   for k_, v_ in sorted(sc["opts"].items())]
    return argv


def decode_all(sc, files, st):
    """files: {relpath: bytes}.  Returns (gram flat dict, lex, extras) or raises."""
    fmt, enc = sc["fmt"], sc["enc"]
    texts = {}
    for ext in FILES[fmt]:
        p = OUT + ext
        if p in files:
            try:
                texts[ext] = files[p].decode(enc)
            except UnicodeError as e:
                raise refgram.GramDecodeError("%s is not valid %s: %s" % (ext, enc, e))
    return texts


def execute(sc, sim):
    global OUT
    OUT = out_prefix(sc)          # one scenario at a time per worker
    st = cm.Stats()
    st.declare("word_not_encodable_in_destination_encoding", "same_grammar_written_twice", "extract_into_reread_grammar", "reread_without_final_newline", "earlier_grammars_written_in_same_process", "rule_count_above_1", "ambiguous_word", "non_ascii_word", "fanout_above_1",
               "lex_in_grammar", "cli_path", "own_reader_reread", "grammar_cmd_from_rcg",
               "lopar_refuses_non_cf", "lopar_start_2plus_symbols", "second_hash_seed",
               "shared_linearization_sequence", "other_platform_refused",
               "grammar_grows_between_two_lopar_writes", "grown_grammar_no_longer_context_free",
               "own_reader_after_reading_another_grammar",
               "other_format_written_to_same_prefix",
               "refused_lopar_write_to_same_prefix_afterwards",
               "cli_after_earlier_grammar_command")
    viols = []
    fmt, enc = sc["fmt"], sc["enc"]
    tb = sc["tb"]
    refg, refl = refgram.extract(tb)
    cf = all(model.is_continuous(s) for s in tb)
    if any(c > 1 for v in refg.values() for c in v.values()):
        st.probe("rule_count_above_1")
    if any(len(d) > 1 for d in refl.values()):
        st.probe("ambiguous_word")
    if any(any(ord(ch) > 127 for ch in w) for w in refl):
        st.probe("non_ascii_word")
    if not cf:
        st.probe("fanout_above_1")
    if "lex_in_grammar" in sc["opts"]:
        st.probe("lex_in_grammar")
    base = {"dirs": ["/sim/w/out", "/sim/w/out2", "/sim/w/prior"], "io_seed": sc["io_seed"],
            "platform": sc["platform"]}
    # ---- in-memory grammar (always through the API, dumped before any writer runs)
    if sc["path"] == "api" and sc.get("prior"):
        # batch use of the API: earlier grammars are written and dropped in the same process
        st.probe("earlier_grammars_written_in_same_process")
        st.fault("history")
        wfmt = sc["fmt"] if sc["fmt"] != "lopar" else "pmcfg"
        items = [{"tb": tb, "shuffle": 77, "mode": None, "fmt": wfmt,
                  "dest": "/sim/w/prior/p%d" % j, "enc": sc["enc"], "opts": sc["opts"]}
                 for j, tb in enumerate(sc["prior"])]
        items.append({"tb": sc["tb"], "shuffle": sc["shuffle"], "mode": sc["mode"],
                      "fmt": sc["fmt"], "dest": OUT, "enc": sc["enc"],
                      "opts": sc["opts"]})
        obs = sim.run(dict(base, sessions=[{"id": "s", "ops": [["gbatch", items]]}]))
        rec = obs["sessions"]["s"][0]
        if "ok" in rec:
            obs["sessions"]["s"] = [{"op": "gdump", "ok": rec["ok"][-1]},
                                    {"op": "gwrite", "ok": None}]
        else:
            # which part failed is not observable here: fall back to the stepwise path
            obs = sim.run(dict(base, sessions=[{"id": "s", "ops": api_ops(dict(sc, prior=[]))}]))
    elif sc["path"] == "api":
        obs = sim.run(dict(base, sessions=[{"id": "s", "ops": api_ops(sc)}]))
    else:
        st.probe("cli_path")
        obs0 = sim.run(dict(base, sessions=[{"id": "s", "ops": api_ops(sc, write=False)}]))
        st.add_obs(obs0)
        codec = "export4" if sc["src"] == "export" else "tigerxml"
        src = cm.render_file({"tb": tb, "codec": codec, "layout": sc["layout"], "enc": "utf-8"})
        cmds = [["cli", cli_argv(sc)]]
        cfiles = {"/sim/w/tb.src": src}
        if sc.get("extra") and sc["io_seed"] % 2 == 1:
            # an earlier `grammar` command on another treebank in the same process (a driver
            # script calling main() twice): this command must start from an empty grammar
            st.probe("cli_after_earlier_grammar_command")
            st.fault("history")
            cfiles["/sim/w/prior.src"] = cm.render_file(
                {"tb": sc["extra"], "codec": "export4", "layout": sc["layout"] + 1, "enc": "utf-8"})
            a0 = cli_argv(dict(sc, fmt="rcg" if fmt == "lopar" else fmt))
            a0[1], a0[2] = "/sim/w/prior.src", "/sim/w/prior/q"
            a0[a0.index("--src-format") + 1] = "export"
            cmds.insert(0, ["cli", a0])
        spec = dict(base, files=cfiles, sessions=[{"id": "s", "ops": cmds,
                                                   "on_error": "continue"}])
        obs = sim.run(spec)
        if sc["io_seed"] % 12 == 0 and base.get("platform", "Linux") == "Linux":
            cm.real_crosscheck(sim, st, spec, obs)
        obs["sessions"]["s"] = obs0["sessions"]["s"] + obs["sessions"]["s"]
    st.add_obs(obs)
    recs = obs["sessions"]["s"]
    if obs.get("hang"):
        return done(sc, st, [cm.viol("C09/hang/%s" % fmt)])
    dumps = [r for r in recs if r["op"] == "gdump" and "ok" in r]
    pre = [r for r in recs if "exc" in r and r["op"] not in ("gwrite", "cli")]
    if pre or not dumps:
        st.probe("extraction_or_binarization_failed")
        return done(sc, st, viols)
    mem, memlex = refgram.from_dump(dumps[0]["ok"])
    memflat = refgram.flat(mem)
    wrec = [r for r in recs if r["op"] in ("gwrite", "cli")][-1]
    failed = "exc" in wrec or (wrec["op"] == "cli" and wrec["ok"].get("exit") != 0)
    mem_cf = refgram.is_contextfree(mem)
    # ---- documented refusals
    if fmt == "lopar" and sc["platform"] != "Linux":
        # the writer refuses to run outside Linux; C09 says nothing about platforms, so
        # neither the refusal nor its absence is judged
        if failed:
            st.probe("other_platform_refused")
        return done(sc, st, viols)
    if fmt == "lopar" and not mem_cf:
        st.probe("lopar_refuses_non_cf")
        if not failed:
            viols.append(cm.viol("C09/lopar/non-context-free-grammar-not-refused"))
        return done(sc, st, viols)
    if sc.get("unencodable"):
        st.probe("word_not_encodable_in_destination_encoding")
        if failed:
            return done(sc, st, viols)           # refusing is fine; writing something else is not
    if failed:
        viols.append(cm.viol("C09/write-failed/%s/%s/%s" % (fmt, sc["path"],
                                                            wrec.get("exc") or "exit"),
                             msg=wrec.get("msg"), enc=enc, opts=sc["opts"]))
        return done(sc, st, viols)
    v = judge_files(sc, obs, memflat, memlex, st)
    if v:
        return done(sc, st, [v])
    files = obs["files"]
    if sc.get("second_write") and sc["path"] == "api" and not sc.get("prior"):
        st.probe("same_grammar_written_twice")
        st.fault("history")
        wrecs = [r for r in recs if r["op"] == "gwrite"]
        if len(wrecs) == 2 and "exc" in wrecs[1]:
            return done(sc, st, [cm.viol("C09/second-write/raised/%s" % wrecs[1]["exc"],
                                         msg=wrecs[1].get("msg"))])
        sw = sc["second_write"]
        files2 = dict((OUT + p[len("/sim/w/out2/g"):], d) for p, d in files.items()
                      if p.startswith("/sim/w/out2/g."))
        v = judge_files(dict(sc, fmt=sw["fmt"], opts=sw["opts"]),
                        {"files": files2, "writelog": [], "unclosed_at_return": []},
                        memflat, memlex, st, tag="second-write", history=False)
        if v:
            v["sig"] = v["sig"].replace("C09/", "C09/second-write/")
            v["detail"]["first"] = [sc["fmt"], sc["opts"]]
            v["detail"]["second"] = [sw["fmt"], sw["opts"]]
            return done(sc, st, [v])
    # ---- another format set written to the same prefix afterwards: the first set stays valid
    sw = sc.get("second_write")
    if sw and sc["path"] == "api" and not sc.get("prior") and sw["fmt"] != fmt \
            and "lex_in_grammar" not in sc["opts"] and sw["opts"]:
        st.probe("other_format_written_to_same_prefix")
        st.fault("history")
        ops = api_ops(dict(sc, second_write=None))
        ops.append(["gwrite", sw["fmt"], "b" if sc["mode"] is not None else "g", OUT, sc["enc"],
                    sw["opts"]])
        obss = sim.run(dict(base, sessions=[{"id": "s", "ops": ops}]))
        st.add_obs(obss)
        if not obss.get("hang") and not any("exc" in r for r in obss["sessions"]["s"]):
            mine = dict((p, d) for p, d in obss["files"].items()
                        if p in [OUT + e for e in FILES[fmt]])
            v = judge_files(sc, {"files": mine, "writelog": [], "unclosed_at_return": []},
                            memflat, memlex, st, tag="after-other-format", history=False)
            if v:
                v["sig"] = v["sig"].replace("C09/", "C09/after-other-format-to-same-prefix/")
                return done(sc, st, [v])
    # ---- a LoPar write of the same (non-context-free) grammar to the same prefix is refused
    #      afterwards: a refusal writes nothing, the files of the first call stay what they were
    if fmt != "lopar" and sc["path"] == "api" and not sc.get("prior") and not mem_cf \
            and sc["platform"] == "Linux" and sc["io_seed"] % 3 == 0:
        st.probe("refused_lopar_write_to_same_prefix_afterwards")
        st.fault("history")
        st.fault("failed_call")
        var = "b" if sc["mode"] is not None else "g"
        ops = api_ops(dict(sc, second_write=None))
        ops.append(["gwrite", "lopar", var, OUT, sc["enc"], {}])
        obsr = sim.run(dict(base, sessions=[{"id": "s", "ops": ops}]))
        st.add_obs(obsr)
        wr = [r for r in obsr["sessions"]["s"] if r["op"] == "gwrite"]
        if not obsr.get("hang") and len(wr) == 2 and "exc" not in wr[0]:
            if "exc" not in wr[1]:
                return done(sc, st, [cm.viol(
                    "C09/lopar/non-context-free-grammar-not-refused/second-write")])
            mine = dict((p, d) for p, d in obsr["files"].items()
                        if p in [OUT + e for e in FILES[fmt]])
            v = judge_files(sc, {"files": mine, "writelog": [], "unclosed_at_return": []},
                            memflat, memlex, st, tag="after-refused-lopar", history=False)
            if v:
                v["sig"] = v["sig"].replace("C09/", "C09/after-refused-lopar-write-to-same-prefix/")
                return done(sc, st, [v])
    # ---- the written grammar grows and is written again (LoPar: the refusal must follow)
    if sc.get("grow") and fmt == "lopar" and sc["path"] == "api" and mem_cf:
        st.probe("grammar_grows_between_two_lopar_writes")
        st.fault("history")
        ops = api_ops(dict(sc, second_write=None))
        for j, x in enumerate(sc["grow"]):
            ops += [["build", "t", x, 31 + j], ["extract", "t", "g"]]
        ops += [["gdump", "g"], ["gwrite", "lopar", "g", "/sim/w/out2/g", sc["enc"], {}]]
        obsg = sim.run(dict(base, sessions=[{"id": "s", "ops": ops}]))
        st.add_obs(obsg)
        rg = obsg["sessions"]["s"]
        dg = [r for r in rg if r["op"] == "gdump" and "ok" in r]
        wg = [r for r in rg if r["op"] == "gwrite"]
        if not obsg.get("hang") and len(dg) == 2 and len(wg) == 2 and "exc" not in wg[0] \
                and not [r for r in rg if "exc" in r and r["op"] != "gwrite"]:
            mem2, memlex2 = refgram.from_dump(dg[1]["ok"])
            if not refgram.is_contextfree(mem2):
                st.probe("grown_grammar_no_longer_context_free")
                if "exc" not in wg[1]:
                    return done(sc, st, [cm.viol(
                        "C09/lopar/non-context-free-grammar-not-refused/after-growth")])
            elif "exc" in wg[1]:
                return done(sc, st, [cm.viol("C09/second-write/raised/%s" % wg[1]["exc"],
                                             msg=wg[1].get("msg"), after="growth")])
            else:
                files2 = dict((OUT + p[len("/sim/w/out2/g"):], d)
                              for p, d in obsg["files"].items()
                              if p.startswith("/sim/w/out2/g."))
                v = judge_files(dict(sc, opts={}),
                                {"files": files2, "writelog": [], "unclosed_at_return": []},
                                refgram.flat(mem2), memlex2, st, tag="after-growth",
                                history=False)
                if v:
                    v["sig"] = v["sig"].replace("C09/", "C09/after-growth/")
                    return done(sc, st, [v])
    # ---- second hash seed (set-valued LoPar side files)
    if fmt == "lopar" and sc["path"] == "api":
        obs2 = sim.run(dict(base, sessions=[{"id": "s", "ops": api_ops(sc)}]), hs=1)
        st.add_obs(obs2)
        st.fault("hashseed")
        st.probe("second_hash_seed")
        v = judge_files(sc, obs2, memflat, memlex, st, tag="hashseed2")
        if v:
            return done(sc, st, [v])
        for ext in (".gram", ".lex"):
            a = obs["files"].get(OUT + ext)
            b = obs2["files"].get(OUT + ext)
            if a != b:
                viols.append(cm.viol("C09/lopar/hash-seed-dependent-output/%s" % ext))
                return done(sc, st, viols)
    # ---- own reader and `grammar --src-format rcg`
    if fmt == "rcg" and "lex_in_grammar" not in sc["opts"] and sc["reread"]:
        keep = dict((p, d) for p, d in files.items() if p.startswith("/sim/w/out/"))
        if sc.get("strip_newline") and enc != "utf-16":
            # the same records without the final line terminator
            keep = dict((p, d[:-1] if d.endswith(b"\n") else d) for p, d in keep.items())
            st.probe("reread_without_final_newline")
        st.probe("own_reader_reread")
        pre = []
        if sc.get("extra") and sc["io_seed"] % 2 == 0:
            # the reading process has read another grammar before (written by itself)
            st.probe("own_reader_after_reading_another_grammar")
            st.fault("history")
            pre = [["gnew", "q"]]
            for j, x in enumerate(sc["extra"]):
                pre += [["build", "t", x, 5 + j], ["extract", "t", "q"]]
            pre += [["gwrite", "rcg", "q", "/sim/w/prior/q", "utf-8", {}],
                    ["gread", "rcg", "q2", "/sim/w/prior/q", "utf-8", {}], ["gdump", "q2"]]
        obs3 = sim.run(dict(base, files=keep, sessions=[{"id": "r", "ops": pre + [
            ["gread", "rcg", "r", OUT, enc, {}], ["gdump", "r"]]}]))
        st.add_obs(obs3)
        r3 = obs3["sessions"]["r"]
        bad = [r for r in r3 if "exc" in r]
        if bad:
            viols.append(cm.viol("C09/own-reader/raised/%s/%s" % (enc, bad[0]["exc"]),
                                 msg=bad[0].get("msg")))
            return done(sc, st, viols)
        g3, l3 = refgram.from_dump(r3[-1]["ok"])
        if refgram.flat(g3) != memflat:
            viols.append(cm.viol("C09/own-reader/grammar-differs",
                                 diff=refgram.diff_grammars(memflat, refgram.flat(g3))))
            return done(sc, st, viols)
        if l3 != memlex:
            viols.append(cm.viol("C09/own-reader/lexicon-differs"))
            return done(sc, st, viols)
        # incremental use: more trees are extracted into the grammar that was read back,
        # then it is written again
        if sc.get("extra"):
            st.probe("extract_into_reread_grammar")
            ops = [["gread", "rcg", "r", OUT, enc, {}]]
            for j, x in enumerate(sc["extra"]):
                ops += [["build", "t", x, 5 + j], ["extract", "t", "r"]]
            fmt3 = random.Random(sc["io_seed"] + 1).choice(["pmcfg", "rcg"])
            ops += [["gdump", "r"], ["gwrite", fmt3, "r", "/sim/w/out/inc", enc, {}]]
            files_in = dict((p, d) for p, d in files.items() if p.startswith("/sim/w/out/"))
            obs5 = sim.run(dict(base, files=files_in, sessions=[{"id": "i", "ops": ops}]))
            st.add_obs(obs5)
            r5 = obs5["sessions"]["i"]
            if not any("exc" in r for r in r5):
                xg, xl = refgram.extract(sc["extra"])
                want = dict(memflat)
                for k_, v_ in refgram.flat(xg).items():
                    want[k_] = want.get(k_, 0) + v_
                wantlex = dict((w, dict(t)) for w, t in memlex.items())
                for w, tags in xl.items():
                    for t, c in tags.items():
                        wantlex.setdefault(w, {})
                        wantlex[w][t] = wantlex[w].get(t, 0) + c
                g5, l5 = refgram.from_dump([r for r in r5 if r["op"] == "gdump"][0]["ok"])
                if refgram.flat(g5) != want or l5 != wantlex:
                    viols.append(cm.viol("C09/incremental/grammar-in-memory-not-the-sum",
                                         diff=refgram.diff_grammars(want, refgram.flat(g5))))
                    return done(sc, st, viols)
                files5 = dict((OUT + p[len("/sim/w/out/inc"):], d)
                              for p, d in obs5["files"].items() if p.startswith("/sim/w/out/inc."))
                v = judge_files(dict(sc, fmt=fmt3, opts={}),
                                {"files": files5, "writelog": [], "unclosed_at_return": []},
                                want, wantlex, st, tag="incremental", history=False)
                if v:
                    v["sig"] = v["sig"].replace("C09/", "C09/incremental/")
                    return done(sc, st, [v])
        # the grammar command fed with the grammar files
        st.probe("grammar_cmd_from_rcg")
        fmt2 = random.Random(sc["io_seed"]).choice(["pmcfg", "rcg"])
        enc2 = enc
        if sc["io_seed"] % 2 == 0:
            # the re-emitted grammar in another encoding than the grammar files read (one that
            # can carry every word)
            enc2 = "utf-8" if enc != "utf-8" else "utf-16"
        argv = ["grammar", OUT, "/sim/w/out/h", "treebank", "--src-format", "rcg",
                "--src-enc", enc, "--dest-format", fmt2, "--dest-enc", enc2]
        obs4 = sim.run(dict(base, files=keep, sessions=[{"id": "c", "ops": [["cli", argv]]}]))
        st.add_obs(obs4)
        r4 = obs4["sessions"]["c"][0]
        if "exc" in r4 or r4["ok"].get("exit") != 0:
            viols.append(cm.viol("C09/grammar-cmd-from-grammar-file/failed/%s"
                                 % (r4.get("exc") or "exit"), msg=r4.get("msg"), enc=enc))
            return done(sc, st, viols)
        sc2 = dict(sc, fmt=fmt2, opts={}, enc=enc2)
        files4 = dict((OUT + p[len("/sim/w/out/h"):], d) for p, d in obs4["files"].items()
                      if p.startswith("/sim/w/out/h."))
        v = judge_files(sc2, {"files": files4, "writelog": [], "unclosed_at_return": []},
                        memflat, memlex, st, tag="re-emitted", history=False)
        if v:
            v["sig"] = v["sig"].replace("C09/", "C09/grammar-cmd-from-grammar-file/")
            return done(sc, st, [v])
    return done(sc, st, viols)


def judge_files(sc, obs, memflat, memlex, st, tag="", history=True):
    fmt, enc = sc["fmt"], sc["enc"]
    files = obs["files"]
    lig = "lex_in_grammar" in sc["opts"]
    want = list(FILES[fmt])
    if lig:
        want.remove(".lex")
    have = sorted(p for p in files if p.startswith("/sim/w/out/"))
    missing = [e for e in want if OUT + e not in files]
    if missing:
        return cm.viol("C09/file-set/missing/%s" % fmt, missing=missing, have=have, tag=tag)
    extra = [p for p in have if p not in [OUT + e for e in want]]
    if extra:
        return cm.viol("C09/file-set/unexpected-file/%s" % fmt, extra=extra, tag=tag)
    if history:
        touched = sorted(set(p for (_, p, _, _) in obs.get("writelog", [])))
        other = [p for p in touched if not p.startswith(OUT + ".")
                 and not p.startswith("/sim/w/out2/")
                 and not p.startswith("/sim/w/prior/")
                 and not p.startswith("/sim/tmp/")]
        if other:
            return cm.viol("C09/file-set/foreign-file-written/%s" % fmt, files=other)
    st.check("file_sets_judged")
    try:
        texts = decode_all(sc, files, st)
        if fmt == "pmcfg":
            g = refgram.dec_pmcfg(texts[".pmcfg"])
            if len(set(s for s in texts[".pmcfg"].split() if s.startswith("s"))) < \
                    sum(len(l) for (_, l) in g):
                st.probe("shared_linearization_sequence")
        elif fmt == "rcg":
            g = refgram.dec_rcg(texts[".rcg"])
        else:
            g = refgram.dec_lopar_gram(texts[".gram"])
        lex = None if lig else refgram.dec_lex(texts[".lex"])
    except refgram.GramDecodeError as e:
        return cm.viol("C09/undecodable/%s/%s" % (fmt, enc), error=str(e)[:300], tag=tag,
                       opts=sc["opts"])
    exp = dict(memflat)
    if lig:
        for w in memlex:
            for t, c in memlex[w].items():
                key = ((t, w), (((0, 0),),))
                exp[key] = exp.get(key, 0) + c
    if fmt == "lopar":
        exp = refgram.surface_cfg(exp)
    if g != exp:
        d = refgram.diff_grammars(exp, g)
        kind = "counts" if d and d.startswith("counts") else "rules"
        return cm.viol("C09/grammar-file-differs/%s/%s%s" % (fmt, kind, "/lex_in_grammar"
                                                             if lig else ""),
                       diff=d, tag=tag, enc=enc)
    if lex is not None and lex != memlex:
        return cm.viol("C09/lexicon-file-differs/%s" % fmt, tag=tag, enc=enc,
                       diff=[(w, memlex.get(w), lex.get(w)) for w in sorted(set(memlex) | set(lex))
                             if memlex.get(w) != lex.get(w)][:4])
    if fmt == "lopar":
        try:
            start = refgram.dec_counts(texts[".start"])
            oc = refgram.dec_counts(texts[".oc"])
            OC = refgram.dec_counts(texts[".OC"])
        except refgram.GramDecodeError as e:
            return cm.viol("C09/undecodable/lopar-side-file", error=str(e)[:200], tag=tag)
        lhs = {}
        rhs = set()
        for (func, _), c in memflat.items():
            lhs[func[0]] = lhs.get(func[0], 0) + c
            rhs.update(func[1:])
        exp_start = dict((a, c) for a, c in lhs.items() if a not in rhs)
        if len(exp_start) >= 2:
            st.probe("lopar_start_2plus_symbols")
        if start != exp_start:
            return cm.viol("C09/lopar/start-symbols", expected=exp_start, got=start, tag=tag)
        eo, eO = {}, {}
        for w in memlex:
            tgt = eO if w[:1].isupper() else eo
            for t, c in memlex[w].items():
                tgt[t] = tgt.get(t, 0) + c
        if oc != eo or OC != eO:
            return cm.viol("C09/lopar/open-class-counts", expected=[eo, eO], got=[oc, OC],
                           tag=tag)
    return None


def done(sc, st, viols):
    shape = (sc["fmt"], sc["path"], c08.modesig(sc["mode"]) if sc["mode"] else "raw",
             sc["enc"], "+".join(sorted(sc["opts"])), sc["platform"],
             model.shape_class(sc["tb"]))
    p = st.d["probes"]
    nontrivial = p["rule_count_above_1"] or p["ambiguous_word"] or p["non_ascii_word"] \
        or p["fanout_above_1"]
    sample = {"fmt": sc["fmt"], "path": sc["path"], "mode": sc["mode"], "enc": sc["enc"],
              "opts": sc["opts"], "sentences": cm.tb_summary(sc["tb"]), "n": len(sc["tb"])}
    return {"violations": viols, "stats": st.done(repr(shape), nontrivial, sample)}


def shrink_candidates(sc):
    if sc.get("prior"):
        c = model.clone(sc)
        c["prior"] = sc["prior"][:-1]
        yield c
    if sc.get("second_write") and sc["second_write"]["opts"]:
        c = model.clone(sc)
        c["second_write"]["opts"] = {}
        yield c
    if sc.get("grow") and len(sc["grow"]) > 1:
        for j in range(len(sc["grow"])):
            c = model.clone(sc)
            del c["grow"][j]
            yield c
    if sc.get("extra"):
        c = model.clone(sc)
        c["extra"] = []
        yield c
    if sc.get("prefix", "g") != "g":
        c = model.clone(sc)
        c["prefix"] = "g"
        yield c
    if sc.get("strip_newline"):
        c = model.clone(sc)
        c["strip_newline"] = False
        yield c
    if sc["path"] == "cli":
        c = model.clone(sc)
        c["path"] = "api"
        yield c
    if sc["mode"] is not None:
        c = model.clone(sc)
        c["mode"] = None
        yield c
    if sc["enc"] != "utf-8":
        c = model.clone(sc)
        c["enc"] = "utf-8"
        yield c
    for k in sorted(sc["opts"]):
        c = model.clone(sc)
        del c["opts"][k]
        yield c
    for tb in model.shrink_treebank(sc["tb"]):
        if tb and not any(t[0][-1:].isdigit() for x in tb for t in x["tokens"]):
            c = model.clone(sc)
            c["tb"] = tb
            yield c
