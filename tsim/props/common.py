"""Helpers shared by the property modules (worker / master side, no repository imports)."""
import hashlib
import random

from .. import model
from .. import refcodec as rc

ENCODINGS = ["utf-8", "latin-1", "utf-16"]


def rng_of(seed, *salt):
    h = hashlib.sha1(repr((seed,) + salt).encode()).hexdigest()
    return random.Random(int(h[:14], 16))


def word_classes_for(enc, paren=False):
    allow = ["ascii", "xml", "len", "latin1", "hash"]
    if enc != "latin-1":
        allow.append("wide")
    if paren:
        allow.append("paren")
    return allow


# ---------------------------------------------------------------------------------- damage
def apply_damage(data, dmg):
    """K8: damage to stored bytes before a read."""
    if not dmg:
        return data
    how = dmg["how"]
    n = len(data)
    if n == 0:
        return data
    at = dmg["at"] % n
    if how == "truncate":
        return data[:at]
    ln = max(1, dmg.get("len", 1))
    if how == "lose_block":
        return data[:at] + data[at + ln:]
    if how == "dup_block":
        return data[:at + ln] + data[at:at + ln] + data[at + ln:]
    if how == "bitflip":
        b = bytearray(data)
        b[at] ^= 1 << (dmg.get("bit", 0) % 8)
        return bytes(b)
    if how == "insert":
        return data[:at] + dmg["bytes"].encode("latin-1") + data[at:]
    if how in ("overwrite", "junk"):
        # a block (or the whole file) replaced by a short random sequence of bracket lexemes:
        # what a misdirected or torn write leaves behind
        enc = dmg.get("enc", "utf-8")
        if how == "junk":
            return dmg["bytes"].encode(enc)
        blob = dmg["bytes"].encode("utf-16-le" if enc == "utf-16" and data[:2] == b"\xff\xfe"
                                   else "utf-16-be" if enc == "utf-16" else enc)
        if enc == "utf-16":
            at = max(2, at - at % 2)
            ln += ln % 2
        return data[:at] + blob + data[at + ln:]
    raise KeyError(how)


def render_file(f):
    """File spec -> bytes.  {'raw': str, 'enc'} | {'tb', 'codec', 'layout', 'enc', 'gz', 'kw'}"""
    if "raw" in f:
        data = f["raw"].encode(f.get("enc", "utf-8"))
    else:
        data = rc.render(f["tb"], f["codec"], random.Random(f.get("layout", 0)),
                         enc=f.get("enc", "utf-8"), gz=False, **f.get("kw", {}))
    data = apply_damage(data, f.get("damage"))
    if f.get("gz"):
        import gzip
        import io
        cuts = [int(x * len(data)) for x in f.get("gz_members", [])]
        buf = io.BytesIO()
        for a, b in zip([0] + cuts, cuts + [len(data)]):
            with gzip.GzipFile(fileobj=buf, mode="wb", mtime=0) as g:
                g.write(data[a:b])
        data = buf.getvalue()
    return data


# ---------------------------------------------------------------------------------- schedules
def gen_schedule(rng, nsessions, nsteps):
    if nsessions <= 1:
        return []
    style = rng.choice(["random", "roundrobin", "bursty", "sequential"])
    if style == "sequential":
        return []
    out = []
    if style == "roundrobin":
        out = [i % nsessions for i in range(nsteps)]
    elif style == "bursty":
        while len(out) < nsteps:
            out.extend([rng.randrange(nsessions)] * rng.randint(1, 6))
    else:
        out = [rng.randrange(nsessions) for _ in range(nsteps)]
    return out[:nsteps]


def schedule_hash(trace):
    return hashlib.sha1(repr(trace).encode()).hexdigest()[:12]


# ---------------------------------------------------------------------------------- stats
class Stats(object):
    def __init__(self):
        self.d = {"procs": 0, "steps": 0, "vfs_ops": 0, "faults": {}, "probes": {},
                  "checks": {}, "schedules": []}

    def add_obs(self, obs, interleaved=None):
        d = self.d
        d["procs"] += 1
        d["steps"] += obs.get("steps", 0)
        st = obs.get("stats", {})
        d["vfs_ops"] += st.get("raw_reads", 0) + st.get("raw_writes", 0) + st.get("opens", 0) \
            + st.get("listdir", 0)
        for k in ("short_read", "listdir_perm", "io_error"):
            if st.get(k):
                self.fault(k, st[k])
        if st.get("short_read_splits_multibyte"):
            self.probe("multibyte_char_split_by_short_read", st["short_read_splits_multibyte"])
        if st.get("gz_opens"):
            self.probe("gzip_source_opened", st["gz_opens"])
        if st.get("unrouted_open"):
            self.probe("unrouted_real_io", st["unrouted_open"])
        if st.get("tmpfiles_left"):
            self.probe("tempfile_left_behind", st["tmpfiles_left"])
        if obs.get("unclosed_at_return"):
            self.probe("file_open_at_return", len(obs["unclosed_at_return"]))
        tr = obs.get("trace") or []
        if tr:
            d["schedules"].append(schedule_hash(tr))
            sess = [s for s, _ in tr]
            switches = sum(1 for a, b in zip(sess, sess[1:]) if a != b)
            if switches > 1:
                self.fault("interleave", 1)
        if obs.get("hang"):
            self.probe("hang", 1)
        if obs.get("lines"):
            ls = self.d.setdefault("lines", [])
            have = set(tuple(x) for x in ls)
            for x in obs["lines"]:
                if tuple(x) not in have:
                    ls.append(list(x))

    def fault(self, kind, n=1):
        self.d["faults"][kind] = self.d["faults"].get(kind, 0) + n

    def probe(self, name, n=1):
        self.d["probes"][name] = self.d["probes"].get(name, 0) + (n if n else 0)

    def declare(self, *names):
        for n in names:
            self.d["probes"].setdefault(n, 0)

    def check(self, name, n=1):
        self.d["checks"][name] = self.d["checks"].get(name, 0) + n

    def done(self, shape, nontrivial, sample):
        self.d["shape"] = shape
        self.d["nontrivial"] = bool(nontrivial)
        self.d["sample"] = sample
        return self.d


def viol(sig, **detail):
    return {"sig": sig, "detail": detail}


def session_outcomes(obs, sid):
    return obs["sessions"].get(sid, [])


def first_diff(a, b, path=""):
    """Human-readable first difference between two nested tuples/lists."""
    if type(a) != type(b) and not (isinstance(a, (list, tuple)) and isinstance(b, (list, tuple))):
        return "%s: %r != %r" % (path, a, b)
    if isinstance(a, (list, tuple)):
        if len(a) != len(b):
            return "%s: length %d != %d" % (path, len(a), len(b))
        for i, (x, y) in enumerate(zip(a, b)):
            d = first_diff(x, y, "%s[%d]" % (path, i))
            if d:
                return d
        return None
    if a != b:
        return "%s: %r != %r" % (path, a, b)
    return None


# ---------------------------------------------------------------------------------- shrinking
def shrink_list(lst, minlen=0):
    """Yield copies of lst with one element removed."""
    if len(lst) > minlen:
        for i in range(len(lst)):
            yield lst[:i] + lst[i + 1:]


def tb_summary(tb):
    return [model.summary(s) for s in tb[:3]]


def real_crosscheck(sim, st, spec, obs, stdout=False):
    """Stub fidelity: run the cli-only sessions of spec once more as real processes on a real
    directory (Sim.run_real) and compare exit statuses, produced files and (optionally) stdout
    with the simulated observation obs.  A disagreement is a harness warning, never a verdict
    on the property."""
    if obs.get("hang") or spec.get("harvest_inputs") or spec.get("faults"):
        return
    for s in spec["sessions"]:
        if any(op[0] != "cli" for op in s["ops"]):
            return
    robs = sim.run_real(spec)
    st.check("real_subprocess_scenarios")
    st.check("real_subprocess_commands", sum(len(s["ops"]) for s in spec["sessions"]))
    st.check("real_subprocess_disagreements", 0)
    problems = []
    for s in spec["sessions"]:
        sid = s.get("id", "s0")
        a = obs["sessions"].get(sid, [])
        b = robs["sessions"].get(sid, [])
        ea = [0 if ("exc" not in o and o["ok"].get("exit") == 0) else 1 for o in a]
        eb = [0 if ("exc" not in o and o["ok"].get("exit") == 0) else 1 for o in b]
        if ea != eb:
            problems.append("exit statuses sim=%r real=%r" % (ea, eb))
        elif stdout and [o.get("out", "") for o in a] != [o.get("out", "") for o in b]:
            problems.append("stdout differs")
    failed = any("exc" in o or o["ok"].get("exit") != 0
                 for s in spec["sessions"] for o in obs["sessions"].get(s.get("id", "s0"), []))
    if obs["files"] != robs["files"] and not failed:
        problems.append("files differ: %r" % sorted(
            p for p in set(obs["files"]) | set(robs["files"])
            if obs["files"].get(p) != robs["files"].get(p))[:5])
    if problems:
        st.check("real_subprocess_disagreements")
        st.d.setdefault("notes", []).append("real-subprocess cross-check disagrees: "
                                            + "; ".join(problems))
