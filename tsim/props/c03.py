"""C03 - any-to-any conversion through the command line is total and lossless.

Simulated: chains of 1-3 real `treetools transform` commands (real main(), real argparse) over
the simulated file system, each command in its own fresh simulated process or all in one
process, with encodings / gzip / directory mode under listdir permutations / short reads.
Oracle: exit status, independent decoding of every destination against the model projected
through read_view/write_view, chain-back equality, own-reader round trip, listing-order
independence, files closed.
"""
import random

from .. import model, treeview, views
from .. import refcodec as rc
from . import common as cm

ID = "C03"
RULE = ("scenario = model treebank rendered in a source format + chain of 1-3 transform commands "
        "(format pairs, encodings, gzip, file/directory source, documented reader/writer options "
        "drawn per scenario), commands run in fresh simulated processes or in one process, "
        "directory mode under two listdir permutations. Distinct = distinct tuple (chain of "
        "formats+options, encodings, gzip, dir mode, process placement, shape class). Non-trivial "
        "= >=2 sentences, or a chain of >=2 commands, or directory mode with >=2 files.")
ASSUMPTIONS = [
    "no --trans in C03 (transformations belong to C04/C11)",
    "raw parentheses in tokens only where the documented mapping applies (brackets destination "
    "or replace_parens); never with a discobrackets file in the chain",
    "source and destination are never the same path",
]

SRC_FORMATS = ["export", "brackets", "discobrackets", "tigerxml"]
DEST_FORMATS = ["export", "brackets", "discobrackets", "tigerxml", "terminals"]
EXT = {"export": ".export", "tigerxml": ".xml", "brackets": ".mrg", "discobrackets": ".dbr",
       "terminals": ".txt"}


def budget(tier):
    return 4000 if tier == "quick" else 200000


def gen_dopts(rng, fmt):
    d = {}
    if fmt == "export" and rng.random() < 0.5:
        d["export_four"] = True
    if fmt in ("export", "brackets", "discobrackets") and rng.random() < 0.2:
        d["gf"] = True
        if rng.random() < 0.3:
            d["gf_separator"] = rng.choice(["#", "-", "~"])
        if rng.random() < 0.3:
            d["gf_terminals"] = True
    if fmt in ("export", "brackets", "discobrackets", "tigerxml") and rng.random() < 0.08:
        # decorations for head marking / Boyd split: nothing is marked or split in a plain
        # conversion, so there is nothing to output
        d[rng.choice(["mark_heads_marking", "boyd_split_marking", "boyd_split_numbering"])] = True
    if fmt == "brackets":
        if rng.random() < 0.3:
            d["brackets_emptyroot"] = True
        if rng.random() < 0.5:
            d["brackets_skipdisco"] = True
    if fmt == "terminals":
        if rng.random() < 0.4:
            d["terminals_pos"] = True
        if rng.random() < 0.2:
            d["terminals_one"] = True
    return d


def optlist(d):
    out = []
    for k in sorted(d):
        out.append(k if d[k] is True else "%s:%s" % (k, d[k]))
    return out


def generate(seed, tier):
    rng = random.Random(seed)
    nsteps = rng.choice([1, 1, 2, 2, 3])
    src_fmt = rng.choice(SRC_FORMATS)
    fmts = [src_fmt]
    for i in range(nsteps):
        if i < nsteps - 1:
            fmts.append(rng.choice(SRC_FORMATS))
        else:
            if nsteps >= 2 and rng.random() < 0.5:
                fmts.append(src_fmt)                       # A -> B -> A
            else:
                fmts.append(rng.choice(DEST_FORMATS))
    encs = [rng.choice(["utf-8", "utf-8", "latin-1", "utf-16", "cp1252", "iso-8859-15"])
            for _ in fmts]
    if src_fmt == "tigerxml" and encs[0] in ("cp1252", "iso-8859-15"):
        encs[0] = "latin-1"      # the reference TIGER-XML encoder declares three encodings only
    has_disco = "discobrackets" in fmts
    has_bracket_src = any(f in ("brackets", "discobrackets") for f in fmts[:-1])
    sopts = {}
    if rng.random() < 0.5:
        sopts["quiet"] = True
    paren = False
    if not has_disco and not has_bracket_src and rng.random() < 0.3:
        # raw parentheses: need the mapping on the way (replace_parens or brackets dest)
        if "brackets" == fmts[-1] and nsteps == 1:
            paren = True
        elif rng.random() < 0.5:
            sopts["replace_parens"] = True
            paren = True
    allow = ["ascii", "xml", "len", "hash"]
    if all(e in ("utf-8", "utf-16") for e in encs):
        allow.append("wide")
    allow.append("latin1")
    if paren:
        allow.append("paren")
    if "export" not in fmts and "terminals" not in fmts and \
            all(e in ("utf-8", "utf-16") for e in encs):
        allow.append("uspace")
    if "brackets" not in fmts and "discobrackets" in fmts:
        allow.append("parentok")        # kept verbatim in the token line of discobrackets
    continuous = src_fmt == "brackets"
    k = model.swarm_knobs(rng, tier, allow=allow, continuous=continuous)
    if src_fmt in ("export", "tigerxml") and rng.random() < 0.3:
        # tags such as $( on words without any bracket: the bracket writers map them, every
        # other format carries them as they are
        k["pos_paren"] = True
        k["punct"], k["pair"] = max(k["punct"], 0.2), max(k["pair"], 0.15)
    dirmode = rng.random() < 0.2
    nfiles = rng.choice([1, 2, 3, 4]) if dirmode else 1
    tbs = [model.gen_treebank(rng, k) for _ in range(nfiles)]
    if rng.random() < 0.02:
        tbs[rng.randrange(len(tbs))] = []         # an empty treebank converts to an empty one
    if rng.random() < 0.03 and nsteps == 1:
        k["n_max"] = max(k["n_max"], 5)      # a long file: crosses buffer boundaries
        tbs[0] = model.gen_treebank(rng, k, nsent=rng.randint(120, 300),
                                    sid_pattern="consecutive")
    if rng.random() < 0.012 and src_fmt != "tigerxml":
        # export numbers non-terminals 500..999: sentences at and next to that boundary
        tbs[0] = [model.gen_sentence(rng, k, 1),
                  model.big_sentence(rng, rng.choice([500, 500, 499, 498]), 2),
                  model.gen_sentence(rng, k, 3)]
        for i_, s_ in enumerate(tbs[0]):
            s_["sid"] = i_ + 1
    kw = {}
    codec = src_fmt
    if src_fmt == "export":
        codec = rng.choice(["export3", "export4"])
        if rng.random() < 0.2:
            sopts["continuous"] = True
    elif src_fmt == "tigerxml":
        if rng.random() < 0.2:
            sopts["continuous"] = True
    elif src_fmt == "brackets":
        if rng.random() < 0.2:
            sopts["brackets_firstid"] = rng.choice([0, 5, 100])
    if src_fmt in ("brackets", "discobrackets") and rng.random() < 0.3:
        sopts["gf_split"] = True
        kw["gf"] = True
    gz = rng.random() < 0.2 and src_fmt != "tigerxml"
    for tb in tbs:
        for e_ in ("latin-1", "cp1252", "iso-8859-15"):
            if e_ in encs and not rc.encodable(tb, e_):
                encs = ["utf-8" if e == e_ else e for e in encs]
    steps = []
    for i in range(nsteps):
        d = gen_dopts(rng, fmts[i + 1])
        if i < nsteps - 1:
            # the output is read again by the next command: keep it in the documented subset
            d.pop("terminals_one", None)
        steps.append({"src_fmt": fmts[i], "dest_fmt": fmts[i + 1], "src_enc": encs[i],
                      "dest_enc": encs[i + 1], "sopts": sopts if i == 0 else
                      ({"quiet": True} if rng.random() < 0.5 else {}), "dopts": d})
    for st_ in steps:
        if st_["src_fmt"] == "tigerxml" and rng.random() < 0.5:
            # "The encoding argument is ignored here": the XML declaration decides
            st_["src_enc_arg"] = rng.choice(["utf-8", "latin-1", "utf-16", "utf8"])
    if dirmode:
        steps = steps[:1]
    files = []
    dname = rng.choice(["d", "d", "tb[2024]", "a*b", "d?x", "sp ace"]) if dirmode else "d"
    for j, tb in enumerate(tbs):
        name = "f%d%s%s" % (j, EXT[src_fmt], ".gz" if gz else "")
        if dirmode and j == 1 and rng.random() < 0.3:
            name = "." + name                     # a dot file is a file like any other
        if dirmode and j == 0 and not gz and rng.random() < 0.15:
            # a file called like a directory of the working directory (the commands run in
            # /sim/w, which holds the source directory): names are relative to the source
            name = dname
        files.append({"path": ("/sim/w/%s/" % dname if dirmode else "/sim/w/") + name, "tb": tb,
                      "codec": codec, "fmt": src_fmt, "layout": rng.randrange(1 << 30),
                      "enc": encs[0], "gz": gz, "kw": kw})
        if gz and rng.random() < 0.3:
            # several gzip members in one file (cat a.gz b.gz)
            files[-1]["gz_members"] = sorted(rng.random() for _ in range(rng.choice([1, 2])))
    return {"files": files, "steps": steps, "dirmode": dirmode,
            "one_process": rng.random() < 0.33, "io_seed": rng.randrange(1 << 30),
            "short_reads": rng.random() < 0.8, "listdir_seeds": [rng.randrange(1 << 30),
                                                                 rng.randrange(1 << 30)],
            # stub fidelity: the same commands once more as real processes on a real directory
            "real": rng.random() < (0.02 if tier == "quick" else 0.004),
            "topnode_probe": rng.random() < 0.08}


# ---------------------------------------------------------------------------------- execute
def argv_for(step, src, dest):
    a = ["transform", src, dest, "--src-format", step["src_fmt"], "--dest-format",
         step["dest_fmt"], "--src-enc", step.get("src_enc_arg", step["src_enc"]),
         "--dest-enc", step["dest_enc"]]
    if step["sopts"]:
        a += ["--src-opts"] + optlist(step["sopts"])
    if step["dopts"]:
        a += ["--dest-opts"] + optlist(step["dopts"])
    return a


def decode_dest(data, fmt, enc, dopts):
    """bytes of a destination file -> model treebank (or terminals view)."""
    if fmt == "tigerxml":
        return rc.dec_tigerxml(data)
    try:
        text = data.decode(enc)
    except UnicodeError as e:
        raise rc.DecodeError("destination is not valid %s: %s" % (enc, e))
    if fmt == "export":
        return rc.dec_export(text, "export_four" in dopts)
    if fmt == "brackets":
        return rc.dec_brackets(text)
    if fmt == "discobrackets":
        return rc.dec_brackets(text, disco=True)
    if fmt == "terminals":
        return rc.dec_terminals(text, pos="terminals_pos" in dopts, one="terminals_one" in dopts)
    raise KeyError(fmt)


def plan(sc):
    """Per source file: list over steps of (src path, dest path, expected view or Refusal)."""
    plans = []
    for f in sc["files"]:
        cur = views.read_view(f["tb"], f["fmt"], f["codec"], sc["steps"][0]["sopts"],
                              f.get("kw", {}))
        src = f["path"]
        chain = []
        refused = False
        for i, st in enumerate(sc["steps"]):
            if sc["dirmode"]:
                dest = src + ".dest"
            else:
                dest = "/sim/w/out%d%s" % (i, EXT[st["dest_fmt"]])
            if refused:
                chain.append((src, dest, None, None))
                src = dest
                continue
            try:
                wv = views.write_view(cur, st["dest_fmt"], st["dopts"])
            except views.Refusal:
                chain.append((src, dest, "REFUSE", None))
                refused = True
                src = dest
                continue
            chain.append((src, dest, wv, cur))
            if st["dest_fmt"] != "terminals" and i + 1 < len(sc["steps"]):
                nxt = sc["steps"][i + 1]
                cur = views.read_view(wv, st["dest_fmt"], views.dest_codec(st["dest_fmt"],
                                                                           st["dopts"]),
                                      nxt["sopts"], {})
            src = dest
        plans.append(chain)
    return plans


def execute(sc, sim):
    st = cm.Stats()
    st.declare("dir_mode_3plus_files", "source_without_lemma_to_dest_with_lemma",
               "discontinuous_tree_to_brackets_refused", "discontinuous_tree_to_brackets_skipped",
               "xml_special_token", "chain_back_A_B_A", "one_process_chain", "gzip_source_opened",
               "own_reader_roundtrip", "utf16_dest", "latin1_dest")
    viols = []
    plans = plan(sc)
    files = dict((f["path"], cm.render_file(f)) for f in sc["files"])
    steps = sc["steps"]
    pair_sig = lambda s: "%s->%s" % (s["src_fmt"], s["dest_fmt"])
    for f in sc["files"]:
        if any(any(ch in t[0] for ch in "&<>\"'") for s in f["tb"] for t in s["tokens"]):
            st.probe("xml_special_token")
    if len(steps) >= 2 and steps[0]["src_fmt"] == steps[-1]["dest_fmt"]:
        st.probe("chain_back_A_B_A")
    if sc["dirmode"] and len(sc["files"]) >= 3:
        st.probe("dir_mode_3plus_files")
    # which step refuses (any file)?
    refuse_at = None
    for chain in plans:
        for i, (_, _, wv, _) in enumerate(chain):
            if wv == "REFUSE" and (refuse_at is None or i < refuse_at):
                refuse_at = i
    nrun = len(steps) if refuse_at is None else refuse_at + 1
    # ---- run the commands
    outcomes = []
    state = dict(files)
    base = {"io_seed": sc["io_seed"], "short_reads": sc["short_reads"],
            "listdir_seed": sc["listdir_seeds"][0],
            "dirs": [sc["files"][0]["path"].rsplit("/", 1)[0]] if sc["dirmode"] else []}

    if sc["dirmode"]:
        # directory mode: one command over the directory (chains only over single files)
        nrun = 1
        argv = argv_for(steps[0], sc["files"][0]["path"].rsplit("/", 1)[0], "/sim/w/ignored")
        spec = dict(base, files=state, sessions=[{"id": "s0", "ops": [["cli", argv]]}])
        obs = sim.run(spec)
        st.add_obs(obs)
        outcomes.append(obs["sessions"]["s0"][0])
        state.update(obs["files"])
        obs_by_step = [obs]
        # second listing order
        spec2 = dict(spec, listdir_seed=sc["listdir_seeds"][1], files=dict(files))
        obs2 = sim.run(spec2)
        st.add_obs(obs2)
        st.check("listing_order_pairs")
        a = dict((p, d) for p, d in obs["files"].items() if p.endswith(".dest"))
        b = dict((p, d) for p, d in obs2["files"].items() if p.endswith(".dest"))
        o1, o2 = outcomes[0], obs2["sessions"]["s0"][0]
        if ("exc" in o1) != ("exc" in o2) or (a != b and "exc" not in o1):
            viols.append(cm.viol("C03/dirmode/listing-order-dependence/%s" % pair_sig(steps[0]),
                                 files_a=sorted(a), files_b=sorted(b),
                                 differing=sorted(p for p in set(a) | set(b)
                                                  if a.get(p) != b.get(p))))
    elif sc["one_process"]:
        st.probe("one_process_chain")
        ops = []
        for i in range(nrun):
            src, dest = plans[0][i][0], plans[0][i][1]
            ops.append(["cli", argv_for(steps[i], src, dest)])
        spec = dict(base, files=state, sessions=[{"id": "s0", "ops": ops,
                                                  "on_error": "continue"}])
        obs = sim.run(spec)
        st.add_obs(obs)
        outcomes = obs["sessions"]["s0"]
        state.update(obs["files"])
        obs_by_step = [obs] * nrun
    else:
        obs_by_step = []
        for i in range(nrun):
            src, dest = plans[0][i][0], plans[0][i][1]
            spec = dict(base, files=dict(state),
                        sessions=[{"id": "s0", "ops": [["cli", argv_for(steps[i], src, dest)]]}])
            obs = sim.run(spec)
            st.add_obs(obs)
            obs_by_step.append(obs)
            outcomes.append(obs["sessions"]["s0"][0])
            state.update(obs["files"])
            if "exc" in outcomes[-1] or outcomes[-1]["ok"].get("exit") != 0:
                break
    # ---- stub fidelity (no verdict on the property: a disagreement is reported as a harness
    #      warning, because it would mean the seams misrepresent a real run)
    if sc.get("real") and not any(o.get("hang") for o in obs_by_step):
        ops = []
        if sc["dirmode"]:
            ops.append(["cli", argv_for(steps[0], sc["files"][0]["path"].rsplit("/", 1)[0],
                                        "/sim/w/ignored")])
        else:
            for i in range(len(outcomes)):
                ops.append(["cli", argv_for(steps[i], plans[0][i][0], plans[0][i][1])])
        robs = sim.run_real(dict(base, files=dict(files),
                                 sessions=[{"id": "s0", "ops": ops}]))
        st.check("real_subprocess_commands", len(ops))
        st.check("real_subprocess_scenarios")
        st.check("real_subprocess_disagreements", 0)
        sim_exit = [0 if ("exc" not in o and o["ok"].get("exit") == 0) else 1 for o in outcomes]
        real_exit = [0 if ("exc" not in o and o["ok"].get("exit") == 0) else 1
                     for o in robs["sessions"]["s0"]]
        produced = dict((p, d) for p, d in state.items() if p not in files or files[p] != d)
        # (after a failed command the files left behind depend on the listing order)
        if sim_exit != real_exit or (produced != robs["files"] and not any(sim_exit)):
            st.check("real_subprocess_disagreements")
            st.d.setdefault("notes", []).append(
                "real-subprocess cross-check disagrees: exits sim=%r real=%r, differing files %r"
                % (sim_exit, real_exit, sorted(p for p in set(produced) | set(robs["files"])
                                               if produced.get(p) != robs["files"].get(p))[:5]))
    # ---- judge
    for i in range(min(nrun, len(outcomes))):
        s = steps[i]
        oc = outcomes[i]
        failed = "exc" in oc or oc["ok"].get("exit") != 0
        expect_refusal = any(chain[i][2] == "REFUSE" for chain in plans)
        if obs_by_step[i].get("hang"):
            viols.append(cm.viol("C03/hang/%s" % pair_sig(s), step=i))
            break
        if expect_refusal:
            st.probe("discontinuous_tree_to_brackets_refused")
            if not failed:
                viols.append(cm.viol("C03/refusal-missing/%s" % pair_sig(s), step=i))
            break
        if failed:
            viols.append(cm.viol("C03/command-failed/%s/%s"
                                 % (pair_sig(s), oc.get("exc") or "exit"),
                                 step=i, msg=oc.get("msg"), exit=(oc.get("ok") or {}).get("exit"),
                                 src_opts=s["sopts"], dest_opts=s["dopts"],
                                 encs=[s["src_enc"], s["dest_enc"]]))
            break
        # a file still open when main() returns is counted (probe file_open_at_return), not
        # judged: no clause of the property speaks of it and interpreter exit flushes it
        if s["dest_enc"] == "utf-16":
            st.probe("utf16_dest")
        if s["dest_enc"] == "latin-1":
            st.probe("latin1_dest")
        bad = False
        for chain in plans:
            src, dest, wv, cur = chain[i]
            if dest not in state:
                viols.append(cm.viol("C03/destination-missing/%s" % pair_sig(s), step=i,
                                     dest=dest))
                bad = True
                break
            if cur is not None and any(t[2] is None for x in cur for t in x["tokens"]) \
                    and s["dest_fmt"] in ("tigerxml",) or \
                    (cur is not None and s["dest_fmt"] == "export" and "export_four" in s["dopts"]
                     and any(t[2] is None for x in cur for t in x["tokens"])):
                st.probe("source_without_lemma_to_dest_with_lemma")
            if cur is not None and len(wv) < len(cur):
                st.probe("discontinuous_tree_to_brackets_skipped")
            v = judge_dest(s, i, state[dest], wv, st, len(steps))
            if v:
                viols.append(v)
                bad = True
                break
            # own reader on own writer's output
            if s["dest_fmt"] != "terminals" and wv:
                v = own_reader(sim, s, dest, state[dest], st, sc)
                if v:
                    viols.append(v)
                    bad = True
                    break
        if bad:
            break
    # ---- totality with a node on top: the first conversion once more with `--trans
    #      add_topnode` (documented without prerequisite).  The old root stops being the root,
    #      so whatever the reader left undefined on it now reaches the writer; the command must
    #      still succeed and write a file of the destination format (content not judged)
    if sc.get("topnode_probe") and not viols and not sc["dirmode"] \
            and plans[0][0][2] not in ("REFUSE", None):
        st.probe("conversion_with_add_topnode")
        s0 = steps[0]
        destT = "/sim/w/outT%s" % EXT[s0["dest_fmt"]]
        obsT = sim.run(dict(base, files=dict(files), sessions=[{"id": "s0", "ops": [
            ["cli", argv_for(s0, sc["files"][0]["path"], destT) + ["--trans", "add_topnode"]]]}]))
        st.add_obs(obsT)
        rT = obsT["sessions"]["s0"][0] if obsT["sessions"]["s0"] else {"exc": "hang"}
        if "exc" in rT or rT["ok"].get("exit") != 0:
            viols.append(cm.viol("C03/with-add_topnode/command-failed/%s/%s"
                                 % (pair_sig(s0), rT.get("exc") or "exit"), msg=rT.get("msg")))
        elif destT not in obsT["files"]:
            viols.append(cm.viol("C03/with-add_topnode/destination-missing/%s" % pair_sig(s0)))
        else:
            try:
                decode_dest(obsT["files"][destT], s0["dest_fmt"], s0["dest_enc"], s0["dopts"])
            except rc.DecodeError as e:
                viols.append(cm.viol("C03/with-add_topnode/destination-undecodable/%s"
                                     % pair_sig(s0), error=str(e)[:200]))
    shape = (tuple((s["src_fmt"], s["dest_fmt"], "+".join(sorted(s["sopts"])),
                    "+".join(sorted(s["dopts"])), s["src_enc"], s["dest_enc"]) for s in steps),
             sc["dirmode"], len(sc["files"]), sc["one_process"], sc["files"][0]["gz"],
             sc["files"][0]["codec"], model.shape_class(sc["files"][0]["tb"]))
    nontrivial = any(len(f["tb"]) >= 2 for f in sc["files"]) or len(steps) >= 2 or \
        (sc["dirmode"] and len(sc["files"]) >= 2)
    sample = {"chain": [[s["src_fmt"], s["dest_fmt"], s["sopts"], s["dopts"], s["src_enc"],
                         s["dest_enc"]] for s in steps], "dirmode": sc["dirmode"],
              "files": len(sc["files"]), "one_process": sc["one_process"],
              "gz": sc["files"][0]["gz"], "sentences": cm.tb_summary(sc["files"][0]["tb"])}
    for s in steps:
        st.check("pair_%s_%s" % (s["src_fmt"], s["dest_fmt"]))
    return {"violations": viols, "stats": st.done(repr(shape), nontrivial, sample)}


def judge_dest(s, i, data, wv, st, nsteps):
    pair = "%s->%s" % (s["src_fmt"], s["dest_fmt"])
    fmt = s["dest_fmt"]
    try:
        dec = decode_dest(data, fmt, s["dest_enc"], s["dopts"])
    except rc.DecodeError as e:
        return cm.viol("C03/destination-undecodable/%s/%s" % (pair, s["dest_enc"]), step=i,
                       error=str(e)[:200], dest_opts=s["dopts"])
    st.check("destinations_decoded")
    if fmt == "terminals":
        exp = views.terminals_view(wv, s["dopts"])
        if dec != exp:
            return cm.viol("C03/content-changed/%s/terminals" % pair, step=i,
                           diff=cm.first_diff(exp, dec))
        return None
    if len(dec) != len(wv):
        return cm.viol("C03/content-changed/%s/sentence-count" % pair, step=i,
                       expected=len(wv), got=len(dec))
    for k, (e, g) in enumerate(zip(wv, dec)):
        diff = views.compare(e, g)
        if diff:
            which = "chain" if i > 0 else "first"
            return cm.viol("C03/content-changed/%s/%s" % (pair, diff[0]), step=i, sentence=k,
                           diff=diff[1], dest_opts=s["dopts"], src_opts=s["sopts"], at=which)
    return None


def own_reader(sim, s, dest, data, st, sc):
    """The tool's own reader of the destination format on the file its writer produced."""
    fmt = s["dest_fmt"]
    pair = "%s->%s" % (s["src_fmt"], fmt)
    spec = {"files": {dest: data}, "io_seed": sc["io_seed"] + 1, "short_reads": sc["short_reads"],
            "sessions": [{"id": "r", "ops": [["reader", "r", fmt, dest, s["dest_enc"],
                                             {"quiet": True}], ["loop", "r", "t", []]]}]}
    obs = sim.run(spec)
    st.add_obs(obs)
    st.probe("own_reader_roundtrip")
    try:
        dec = decode_dest(data, fmt, s["dest_enc"], s["dopts"])
    except rc.DecodeError:
        return None
    codec = views.dest_codec(fmt, s["dopts"])
    exp = views.read_view(dec, fmt, codec, {}, {})
    trees = []
    for rec in obs["sessions"]["r"]:
        if "exc" in rec:
            return cm.viol("C03/own-reader-rejects-own-output/%s/%s/%s"
                           % (fmt, s["dest_enc"], rec["exc"]), msg=rec.get("msg"), pair=pair,
                           dest_opts=s["dopts"])
        if rec["op"] == "next":
            if rec["ok"] == "STOP":
                break
            trees.append(rec["ok"])
    if len(trees) != len(exp):
        return cm.viol("C03/own-reader-differs/%s/tree-count" % fmt, expected=len(exp),
                       got=len(trees), pair=pair)
    for k, (e, d) in enumerate(zip(exp, trees)):
        probs = treeview.wellformed(d)
        if probs:
            return cm.viol("C03/own-reader-differs/%s/%s" % (fmt, probs[0]), sentence=k,
                           pair=pair)
        if fmt in ("brackets", "discobrackets"):
            e["sid"] = None
        diff = views.compare(e, treeview.to_sentence(d))
        if diff:
            return cm.viol("C03/own-reader-differs/%s/%s" % (fmt, diff[0]), sentence=k,
                           diff=diff[1], pair=pair, dest_opts=s["dopts"])
    return None


# ---------------------------------------------------------------------------------- shrink
def shrink_candidates(sc):
    if len(sc["steps"]) > 1:
        c = model.clone(sc)
        c["steps"] = c["steps"][:-1]
        yield c
        # drop the first step: re-render the source in the second step's source format
    if sc["dirmode"] and len(sc["files"]) > 1:
        for i in range(len(sc["files"])):
            c = model.clone(sc)
            del c["files"][i]
            yield c
    if sc["one_process"]:
        c = model.clone(sc)
        c["one_process"] = False
        yield c
    if sc.get("short_reads"):
        c = model.clone(sc)
        c["short_reads"] = False
        yield c
    for i, s in enumerate(sc["steps"]):
        for key in ("sopts", "dopts"):
            for k in sorted(s[key]):
                c = model.clone(sc)
                del c["steps"][i][key][k]
                if k == "gf_split":
                    for f in c["files"]:
                        f["kw"].pop("gf", None)
                yield c
        for key in ("src_enc", "dest_enc"):
            if s[key] != "utf-8":
                c = model.clone(sc)
                c["steps"][i][key] = "utf-8"
                if key == "src_enc" and i == 0:
                    for f in c["files"]:
                        f["enc"] = "utf-8"
                if key == "dest_enc" and i + 1 < len(c["steps"]):
                    c["steps"][i + 1]["src_enc"] = "utf-8"
                if key == "src_enc" and i > 0:
                    c["steps"][i - 1]["dest_enc"] = "utf-8"
                yield c
    for i, f in enumerate(sc["files"]):
        if f.get("gz"):
            c = model.clone(sc)
            c["files"][i]["gz"] = False
            c["files"][i]["path"] = f["path"][:-3]
            yield c
        for tb in model.shrink_treebank(f["tb"]):
            if not tb:
                continue
            c = model.clone(sc)
            c["files"][i]["tb"] = tb
            yield c
        if f.get("layout") != 0:
            c = model.clone(sc)
            c["files"][i]["layout"] = 0
            yield c
