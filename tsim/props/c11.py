"""C11 - token-editing transformations change exactly the targeted tokens.

The per-tree edit semantics are pure; what is simulated is everything around them: terminal
files on the simulated file system, the *cache on the function object* (cold / warm same file /
other file / after a failed load), stdout as a data channel (punctuation_delete), and two
sessions interleaved in one process.  Oracle: refinement against functional edit models.
"""
import random

from .. import model, treeview, views
from . import common as cm

ID = "C11"
RULE = ("scenario = 1-2 sessions of 1-6 calls; each call builds a fresh tree from a seeded "
        "sentence (punctuation / trace tokens at any depth) and applies one token-editing "
        "transformation with seeded parameters; insert/substitute calls alternate between "
        "terminal files with different names (valid, out-of-range, index 0, duplicate index, "
        "other sentence ids) so that every cache state occurs; sessions interleaved by a seeded "
        "schedule. Distinct = distinct (sequence of (op, parameter names, file role), shape "
        "class). Non-trivial = >= 2 calls in a session or 2 sessions.")
ASSUMPTIONS = [
    "insert_terminals follows the convention fixed by the test-suite: index = final 1-based "
    "position, insertions in ascending order, new tokens attached to the root",
    "a trace is a token with POS -NONE-; its word is a label LABEL(-n)?; constituent labels are "
    "drawn from LABEL(-GF)?(=n)?(-n)?",
    "with the slash parameter only the generic clauses are judged (tokens other than traces "
    "untouched, numbering, returned root)",
    "a terminal file is never rewritten under the same name",
]

PUNCT = [",", ".", "?", "!", ";", ":", "--", "-", "/", "...", "\"", "'", "''", "`", "``",
         "(", ")", "[", "]", "{", "}", "-LRB-", "-RRB-", "-LSB-", "-RSB-", "-LCB-", "-RCB-"]
TRACES = ["*T*", "*", "*U*", "0", "*ICH*", "*EXP*", "*RNR*"]


def budget(tier):
    return 10000 if tier == "quick" else 600000


# ---------------------------------------------------------------------------------- reference
def prune(sent, drop):
    """Delete tokens (1-based indices in drop), renumber, prune empty constituents."""
    drop = set(drop)
    keep = [i for i in range(1, len(sent["tokens"]) + 1) if i not in drop]
    ren = dict((old, new + 1) for new, old in enumerate(keep))

    def rec(n):
        kids = []
        for c in n[2]:
            if isinstance(c, int):
                if c in ren:
                    kids.append(ren[c])
            else:
                r = rec(c)
                if r[2]:
                    kids.append(r)
        return [n[0], n[1], sorted(kids, key=model.leftmost)]
    out = {"sid": sent["sid"], "tokens": [model.clone(sent["tokens"][i - 1]) for i in keep],
           "root": rec(sent["root"])}
    return out


def ref_punctuation_delete(sent):
    drop = [i + 1 for i, t in enumerate(sent["tokens"]) if t[0] in PUNCT]
    if len(drop) == len(sent["tokens"]):
        return model.clone(sent), []
    lines = ["%s\t%s\t%s\t%s" % (sent["sid"], i, sent["tokens"][i - 1][0],
                                 sent["tokens"][i - 1][1]) for i in drop]
    return prune(sent, drop), lines


def strip_indices(label, keepco):
    """Remove gap index always, co-index unless keepco (labels LABEL(-GF)?(=n)?(-n)?)."""
    base, gf = views.ref_split(label)            # -> LABEL[=gap][-co], GF
    co = ""
    i = base.rfind("-")
    if i > -1 and base[i + 1:].isdigit():
        co = base[i + 1:]
        base = base[:i]
    i = base.rfind("=")
    if i > -1 and base[i + 1:].isdigit():
        base = base[:i]
    head = ""
    if base.endswith("'") and len(base) > 1:
        head, base = "'", base[:-1]
        i = base.rfind("-")
        if i > -1 and base[i + 1:].isdigit():
            co = base[i + 1:]
            base = base[:i]
        i = base.rfind("=")
        if i > -1 and base[i + 1:].isdigit():
            base = base[:i]
    out = base
    if gf != "--":
        out += "-" + gf
    if keepco and co:
        out += "-" + co
    return out + head


def coindex_of(label):
    """Co-index of a label LABEL(-GF)?(=n)?(-n)?'? ('' if none)."""
    a, b = strip_indices(label, True), strip_indices(label, False)
    if a == b:
        return ""
    if b.endswith("'") and len(b) > 1:
        a = a[:-1]
    return a[a.rfind("-") + 1:]


def ref_delete_traces(sent, params):
    keep = params["keep"].split(",") if "keep" in params else []
    keepall = "keepall" in params
    keepco = "keepcoindex" in params
    s = model.clone(sent)
    drop = []
    for i, t in enumerate(s["tokens"]):
        if t[1] != "-NONE-":
            continue
        bare = strip_indices(t[0], False)
        if keepall or bare in keep:
            t[1] = strip_indices(t[0], keepco)
            t[0] = "-NONE-"
        else:
            drop.append(i + 1)
    if len(drop) == len(s["tokens"]):
        return None                     # degenerate: no obligation
    out = prune(s, drop)
    for c in model.constituents(out["root"]):
        c[0] = strip_indices(c[0], keepco)
    return out


def parse_tfile(text, need_pos):
    """-> {sid: {idx: (word, pos)}} or 'DUP' / 'BAD'"""
    out = {}
    for line in text.split("\n"):
        p = line.strip().split()
        if not p:
            continue
        if len(p) < (4 if need_pos else 3):
            return "BAD"
        if len(p) == 3:
            p.append(None)
        try:
            sid, idx = int(p[0]), int(p[1])
        except ValueError:
            return "BAD"
        d = out.setdefault(sid, {})
        if idx in d:
            return "DUP"
        d[idx] = (p[2], p[3])
    return out


def ref_insert(sent, table):
    s = model.clone(sent)
    reqs = table.get(s["sid"], {})
    toks = s["tokens"]
    root_new = []
    for idx in sorted(reqs):
        if idx < 1 or idx > len(toks) + 1:
            continue
        word, pos = reqs[idx]
        # shift numbering of tokens at or after idx

        def shift(n):
            n[2] = [(c + 1 if c >= idx else c) if isinstance(c, int) else shift(c)
                    for c in n[2]]
            return n
        shift(s["root"])
        toks.insert(idx - 1, [word, pos, "--", "--", "--"])
        s["root"][2].append(idx)
    model.sort_children(s["root"])
    return s


def ref_substitute(sent, table):
    s = model.clone(sent)
    reqs = table.get(s["sid"], {})
    for idx in sorted(reqs):
        if idx < 1 or idx > len(s["tokens"]):
            continue
        word, pos = reqs[idx]
        s["tokens"][idx - 1][0] = word
        if pos is not None:
            s["tokens"][idx - 1][1] = pos
    return s


def ref_filter(sent, params):
    n = len(sent["tokens"])
    op, val = params["filteroperator"], params["filtervalue"]
    if (op == "lt" and n < val) or (op == "gt" and n > val) or (op == "eq" and n == val):
        return None
    return sent


# ---------------------------------------------------------------------------------- generate
def gen_sentence(rng, tier, sid, traces):
    k = model.swarm_knobs(rng, tier, allow=("ascii", "latin1"))
    k["n_min"] = 2
    k["n_max"] = max(2, k["n_max"])
    k["punct"] = rng.choice([0.0, 0.2, 0.4, 1.0])
    k["pair"] = rng.choice([0.0, 0.15])
    s = model.gen_sentence(rng, k, sid)
    if traces:
        for t in s["tokens"]:
            if rng.random() < 0.35:
                t[1] = "-NONE-"
                t[0] = rng.choice(TRACES) + (("-%d" % rng.randint(1, 4)) if rng.random() < 0.6
                                             else "")
        for c in model.constituents(s["root"])[1:]:
            if rng.random() < 0.3:
                c[0] += "-" + rng.choice(["SBJ", "TMP", "PRD"])
            if rng.random() < 0.2:
                c[0] += "=%d" % rng.randint(1, 3)
            if rng.random() < 0.4:
                used = [t[0].rsplit("-", 1)[1] for t in s["tokens"]
                        if t[1] == "-NONE-" and "-" in t[0]
                        and t[0].rsplit("-", 1)[1].isdigit()]
                # mostly the index of some trace: fillers for the slash annotation
                c[0] += "-%s" % (rng.choice(used) if used and rng.random() < 0.6
                                 else rng.randint(1, 4))
            if rng.random() < 0.15:
                c[0] += "'"                      # head marker, allowed after the indices
    return s


def gen_tfile(rng, sents, need_pos, kind):
    """A terminal file for the given sentences. kind: valid | edge | dup"""
    lines = []
    used = {}
    for s in sents:
        n = len(s["tokens"])
        for _ in range(rng.choice([0, 1, 1, 2, 3])):
            if kind == "valid":
                idx = rng.randint(1, n + (1 if need_pos else 0))
            else:
                idx = rng.choice([0, 1, n, n + 1, n + 2, n + 5, rng.randint(1, n + 1), -1])
            if (s["sid"], idx) in used:
                continue
            used[(s["sid"], idx)] = True
            w = rng.choice(["neu", "X", "Käse", "house", ","])
            p = rng.choice(["NEW", "NN", "$,"])
            if need_pos or rng.random() < 0.6:
                lines.append("%d %d %s %s" % (s["sid"], idx, w, p))
            else:
                lines.append("%d %d %s" % (s["sid"], idx, w))
    # requests for another sentence id
    if rng.random() < 0.5:
        lines.append("%d %d %s %s" % (9000 + rng.randint(1, 9), 1, "other", "NN"))
    rng.shuffle(lines)
    if kind == "dup" and lines:
        first = lines[0].split()
        lines.append("%s %s %s %s" % (first[0], first[1], "dup", "NN"))
    elif kind == "dup":
        lines = ["1 1 a NN", "1 1 b NN"]
    if not lines:
        return ""
    return "\n".join(lines) + ("\n" if rng.random() < 0.8 else "")


def gen_session(rng, tier, si):
    ncalls = rng.choice([1, 2, 3, 4, 6])
    family = rng.choice(["insert", "substitute", "mixed", "traces", "punct", "mixed"])
    calls = []
    files = {}
    sents = [gen_sentence(rng, tier, sid=rng.randint(1, 6) if family != "traces" else j + 1,
                          traces=(family in ("traces", "mixed") and rng.random() < 0.7))
             for j in range(ncalls)]
    nfiles = rng.choice([1, 2, 3])
    for f in range(nfiles):
        which = rng.choice(["insert", "substitute"]) if family == "mixed" else \
            ("insert" if family == "insert" else "substitute")
        kind = rng.choice(["valid", "valid", "edge", "edge", "dup"])
        files["/sim/w/s%d_t%d.txt" % (si, f)] = {
            "for": which, "kind": kind,
            "text": gen_tfile(rng, sents, which == "insert", kind)}
    fnames = sorted(files)
    for j in range(ncalls):
        s = sents[j]
        if family in ("insert", "substitute"):
            op = family + "_terminals"
        elif family == "traces":
            op = "ptb_delete_traces"
        elif family == "punct":
            op = rng.choice(["punctuation_delete", "punctuation_delete", "delete_terminal",
                             "filter_by_length"])
        else:
            op = rng.choice(["insert_terminals", "substitute_terminals", "punctuation_delete",
                             "ptb_delete_traces", "delete_terminal", "filter_by_length"])
        params = {}
        if op in ("insert_terminals", "substitute_terminals"):
            cands = [f for f in fnames if files[f]["for"] == op.split("_")[0]]
            if not cands:
                op = "punctuation_delete"
            else:
                params["terminalfile"] = rng.choice(cands)
                if rng.random() < 0.5:
                    params["quiet"] = True
        if op == "ptb_delete_traces":
            r = rng.random()
            if r < 0.3:
                params["keepall"] = True
            elif r < 0.6:
                params["keep"] = ",".join(rng.sample(TRACES, rng.randint(1, 3)))
            if rng.random() < 0.4:
                params["keepcoindex"] = True
            if rng.random() < 0.2:
                params["slash"] = True
                if "keep" not in params and rng.random() < 0.7:
                    params["keepall"] = True    # only kept traces are annotated
        if op == "punctuation_delete" and rng.random() < 0.5:
            params["quiet"] = True
        if op == "filter_by_length":
            params = {"filteroperator": rng.choice(["lt", "gt", "eq"]),
                      "filtervalue": rng.randint(1, 9)}
        if op == "delete_terminal":
            params = {"num": rng.randint(1, len(s["tokens"]))}
        call = {"sent": s, "op": op, "params": params, "shuffle": rng.randrange(1 << 30)}
        if rng.random() < 0.3:
            call["via_export"] = True          # the tree comes from the export reader
        if rng.random() < 0.15:
            # the tree object has been written out before it is edited (a writer numbers the
            # nodes it writes; the edit must not take that for anything)
            call["written_before"] = rng.choice(["export", "tigerxml"])
        if op in ("punctuation_delete", "ptb_delete_traces", "insert_terminals",
                  "delete_terminal") and rng.random() < 0.3 and "slash" not in params:
            n = len(s["tokens"])
            call["then_filter"] = {"filteroperator": rng.choice(["lt", "gt", "eq"]),
                                   "filtervalue": rng.choice([n, n - 1, max(1, n - 2), n + 1])}
        calls.append(call)
    return {"calls": calls, "files": files}


def generate(seed, tier):
    rng = random.Random(seed)
    n = rng.choice([1, 1, 2])
    sessions = [gen_session(rng, tier, i) for i in range(n)]
    nsteps = sum(2 * len(s["calls"]) for s in sessions)
    return {"sessions": sessions, "schedule": cm.gen_schedule(rng, n, nsteps + 2),
            "io_seed": rng.randrange(1 << 30)}


# ---------------------------------------------------------------------------------- execute
def build_spec(sc):
    files = {}
    sessions = []
    for i, s in enumerate(sc["sessions"]):
        for p, f in s["files"].items():
            files[p] = f["text"].encode("utf-8")
        ops = []
        for j, c in enumerate(s["calls"]):
            t, r = "t%d" % j, "r%d" % j
            if c.get("via_export"):
                path = "/sim/w/s%d_c%d.export" % (i, j)
                files[path] = cm.render_file({"tb": [c["sent"]], "codec": "export4",
                                              "layout": c["shuffle"], "enc": "utf-8"})
                ops.append(["reader", "rd", "export", path, "utf-8", {"quiet": True}])
                ops.append(["next", "rd", t])
            else:
                ops.append(["build", t, c["sent"], c["shuffle"]])
            if c.get("written_before"):
                ops += [["sio", "o"], ["write", c["written_before"], t, "o", {}]]
            if c["op"] == "delete_terminal":
                ops.append(["call", "delete_terminal", t, c["params"]["num"]])
                if c.get("then_filter"):
                    ops.append(["trans", t, "filter_by_length", c["then_filter"], "flt"])
            else:
                ops.append(["trans", t, c["op"], c["params"], r])
                if c.get("then_filter"):
                    ops.append(["trans", r, "filter_by_length", c["then_filter"], "flt"])
        # every result is looked at once more when the session is over: what a call returned
        # is the caller's, later calls (the cache of a terminal file, say) must not reach it
        for j, c in enumerate(s["calls"]):
            ops.append(["dump", ("t%d" if c["op"] == "delete_terminal" else "r%d") % j])
        sessions.append({"id": "s%d" % i, "ops": ops, "on_error": "continue"})
    return {"files": files, "sessions": sessions, "schedule": sc.get("schedule", []),
            "io_seed": sc["io_seed"]}


def psig(params):
    return "+".join(sorted(k for k in params if k not in ("terminalfile", "filtervalue", "num",
                                                           "filteroperator"))) or "default"


def judge_call(c, files, rec, st):
    op, params, sent = c["op"], c["params"], c["sent"]
    st.check("calls_judged")
    exp = None
    exp_out = None
    if op in ("insert_terminals", "substitute_terminals"):
        f = files[params["terminalfile"]]
        table = parse_tfile(f["text"], op == "insert_terminals")
        if table in ("DUP", "BAD"):
            st.probe("failed_terminal_file_load")
            if "exc" not in rec:
                return cm.viol("C11/%s/duplicate-index-file-accepted" % op)
            return None
        exp = ref_insert(sent, table) if op == "insert_terminals" else ref_substitute(sent, table)
        reqs = table.get(sent["sid"], {})
        n = len(sent["tokens"])
        if any(i < 1 or i > n + (1 if op == "insert_terminals" else 0) for i in reqs):
            st.probe("out_of_range_or_index0_request")
        if not reqs and table:
            st.probe("other_sentence_ids_only")
    elif op == "punctuation_delete":
        exp, exp_out = ref_punctuation_delete(sent)
        if exp_out == [] and any(t[0] in PUNCT for t in sent["tokens"]):
            st.probe("punctuation_only_sentence")
        pr = prune(sent, [])
    elif op == "ptb_delete_traces":
        exp = ref_delete_traces(sent, params)
        if exp is None:
            # every token is a trace to be deleted: the shape of what is left is not
            # documented, but "no trace token remains" still holds
            st.probe("all_tokens_are_deleted_traces")
            if "exc" not in rec and rec["ok"] is not None:
                left = [r["d"][treeview.L_WORD] for r in rec["ok"]["nodes"]
                        if r["d"][treeview.L_LABEL] == "-NONE-"]
                if left:
                    return cm.viol("C11/ptb_delete_traces/trace-remains-in-emptied-sentence",
                                   params=params, left=left)
            return None
        if "slash" in params and all(t[1] == "-NONE-" for t in sent["tokens"]):
            return None     # slash deletes traces without filler: sentence may become empty
        if "keep" in params and "keepcoindex" in params:
            st.probe("keep_with_keepcoindex")
    elif op == "filter_by_length":
        exp = ref_filter(sent, params)
        if exp is None:
            st.probe("tree_filtered_out")
            if "exc" in rec:
                return cm.viol("C11/filter_by_length/raised/%s" % rec["exc"])
            if rec["ok"] is not None:
                return cm.viol("C11/filter_by_length/tree-not-dropped", params=params,
                               n=len(sent["tokens"]))
            return None
    elif op == "delete_terminal":
        exp = prune(sent, [params["num"]])
    if "exc" in rec and op == "ptb_delete_traces" and "slash" in params \
            and rec["exc"] == "ValueError":
        st.probe("slash_annotation_rejected")      # deliberate rejection: no obligation
        return None
    if "exc" in rec:
        return cm.viol("C11/%s/%s/raised/%s" % (op, psig(params), rec["exc"]),
                       msg=rec.get("msg"), params=params)
    d = rec["ok"]
    if d is None:
        return cm.viol("C11/%s/returned-none" % op, params=params)
    if op == "delete_terminal":
        d = d["tree"]
    probs = treeview.wellformed(d)
    if "returned-node-has-parent" in probs:
        return cm.viol("C11/%s/returned-node-is-not-the-root" % op, params=params,
                       problems=probs)
    if probs:
        return cm.viol("C11/%s/%s/ill-formed/%s" % (op, psig(params), probs[0]), params=params,
                       problems=probs)
    got = treeview.to_sentence(d)
    if op == "ptb_delete_traces" and "slash" in params:
        a = [(t[0], t[1]) for t in sent["tokens"] if t[1] != "-NONE-"]
        b = [(t[0], t[1]) for t in got["tokens"] if t[0] != "-NONE-" and t[1] != "-NONE-"]
        if a != b:
            return cm.viol("C11/ptb_delete_traces/slash/other-tokens-changed", params=params)
        # the annotation only appends "/<label of a filler>" to labels and may delete traces
        # without filler (and what they leave empty): what remains is a pruned version of the
        # tree expected without `slash`
        if exp is not None:
            st.probe("slash_annotation_judged")
            from collections import Counter
            want_tr = Counter(t[1] for t in exp["tokens"] if t[0] == "-NONE-")
            got_tr = Counter(t[1] for t in got["tokens"] if t[0] == "-NONE-")
            if got_tr - want_tr:
                return cm.viol("C11/ptb_delete_traces/slash/trace-not-asked-for-remains",
                               params=params, extra=sorted((got_tr - want_tr).elements()))
            # ... and the other way round: the annotation removes a trace only when it has no
            # filler.  A trace that was asked for and carries no co-index, or whose co-index
            # is that of a constituent which survives the deletions, stays
            p2 = dict((k, v) for k, v in params.items() if k != "slash")
            p2["keepcoindex"] = True
            surv = ref_delete_traces(sent, p2)
            if surv is not None:
                keep = params["keep"].split(",") if "keep" in params else []
                cos = set(coindex_of(c[0]) for c in model.constituents(surv["root"])) - {""}
                must = Counter()
                for t in sent["tokens"]:
                    if t[1] != "-NONE-":
                        continue
                    if "keepall" in params or strip_indices(t[0], False) in keep:
                        co = coindex_of(t[0])
                        if co == "" or co in cos:
                            must[strip_indices(t[0], "keepcoindex" in params)] += 1
                if must:
                    st.probe("slash_kept_trace_with_filler")
                if must - got_tr:
                    return cm.viol("C11/ptb_delete_traces/slash/kept-trace-with-filler-deleted",
                                   params=params, missing=sorted((must - got_tr).elements()))
            want_lab = Counter(c[0] for c in model.constituents(exp["root"]))
            got_lab = Counter(c[0].split("/")[0] for c in model.constituents(got["root"]))
            if got_lab - want_lab:
                return cm.viol("C11/ptb_delete_traces/slash/labels-not-those-without-slash",
                               params=params, extra=sorted((got_lab - want_lab).elements()))
            fillers = set(strip_indices(c[0], False).split("-")[0]
                          for c in model.constituents(sent["root"]))
            fillers |= set(x.rstrip("'") for x in fillers)      # with or without head marker
            annots = set(x for c in model.constituents(got["root"])
                         for x in c[0].split("/")[1:])
            if annots:
                st.probe("slash_annotation_present")
            if annots - fillers:
                return cm.viol("C11/ptb_delete_traces/slash/annotation-is-no-filler-label",
                               params=params, extra=sorted(annots - fillers))
        return None
    e2 = model.clone(exp)
    for t in e2["tokens"]:
        t[2] = t[3] = t[4] = None
    for x in model.constituents(e2["root"]):
        x[1] = None
    diff = views.compare(e2, got, check_sid=False)
    if diff:
        return cm.viol("C11/%s/%s/%s" % (op, psig(params), diff[0]), params=params, diff=diff[1],
                       file=(files.get(params.get("terminalfile")) or {}).get("text"))
    if exp_out is not None:
        lines = (rec.get("out") or "").split("\n")
        if lines and lines[-1] == "":
            lines = lines[:-1]
        # the list of removed tokens on stdout is documented by the transformation, but no
        # clause of C11 speaks of it (and its layout is nobody's contract): counted only
        if lines == exp_out:
            st.probe("punctuation_delete_stdout_lists_removed_tokens")
    return None


def judge_follow(c, files, rec, st):
    """filter_by_length applied to the tree an edit has just changed: the length that counts is
    the length after the edit."""
    op, params, sent = c["op"], c["params"], c["sent"]
    if op == "punctuation_delete":
        exp, _ = ref_punctuation_delete(sent)
    elif op == "ptb_delete_traces":
        exp = ref_delete_traces(sent, params)
    elif op == "insert_terminals":
        table = parse_tfile(files[params["terminalfile"]]["text"], True)
        if table in ("DUP", "BAD"):
            return None
        exp = ref_insert(sent, table)
    elif op == "delete_terminal":
        exp = prune(sent, [params["num"]])
    else:
        return None
    if exp is None:
        return None
    st.probe("filter_after_length_changing_edit")
    if c.get("via_export"):
        st.probe("edited_tree_came_from_export_reader")
    want = ref_filter(exp, c["then_filter"])
    if "exc" in rec:
        return cm.viol("C11/filter_by_length/after-%s/raised/%s" % (op, rec["exc"]),
                       params=c["then_filter"])
    dropped = rec["ok"] is None
    if dropped != (want is None):
        return cm.viol("C11/filter_by_length/after-%s/wrong-decision" % op,
                       params=c["then_filter"], length_after_edit=len(exp["tokens"]),
                       length_before=len(sent["tokens"]), dropped=dropped,
                       via_export=bool(c.get("via_export")))
    return None


def execute(sc, sim):
    st = cm.Stats()
    st.declare("filter_after_length_changing_edit", "edited_tree_came_from_export_reader",
               "warm_cache_same_file", "cache_switch_to_other_file", "call_after_failed_load",
               "failed_terminal_file_load", "out_of_range_or_index0_request",
               "other_sentence_ids_only", "punctuation_only_sentence", "keep_with_keepcoindex",
               "tree_filtered_out", "two_sessions_interleaved", "slash_annotation_judged",
               "slash_annotation_present", "slash_annotation_rejected",
               "slash_kept_trace_with_filler",
               "all_tokens_are_deleted_traces")
    spec = build_spec(sc)
    obs = sim.run(spec)
    st.add_obs(obs)
    viols = []
    if obs.get("hang"):
        viols.append(cm.viol("C11/hang"))
    if len(sc["sessions"]) >= 2 and st.d["faults"].get("interleave"):
        st.probe("two_sessions_interleaved")
    for i, s in enumerate(sc["sessions"]):
        allrecs = [r for r in obs["sessions"].get("s%d" % i, []) if r["op"] in ("trans", "call")]
        recs, follow = [], []
        k_ = 0
        for c in s["calls"]:
            recs.append(allrecs[k_] if k_ < len(allrecs) else {"op": "trans", "exc": "Missing"})
            k_ += 1
            if c.get("then_filter"):
                follow.append(allrecs[k_] if k_ < len(allrecs) else None)
                k_ += 1
            else:
                follow.append(None)
        last = {}
        failed = {}
        for ci, (c, rec) in enumerate(zip(s["calls"], recs)):
            if "terminalfile" in c["params"]:
                fam = c["op"]
                f = c["params"]["terminalfile"]
                if last.get(fam) == f:
                    st.probe("warm_cache_same_file")
                elif fam in last:
                    st.probe("cache_switch_to_other_file")
                if failed.get(fam):
                    st.probe("call_after_failed_load")
                    st.fault("failed_call")
                last[fam] = f
                failed[fam] = "exc" in rec
            v = judge_call(c, s["files"], rec, st)
            if not v and follow[ci] is not None and "exc" not in rec:
                v = judge_follow(c, s["files"], follow[ci], st)
            if v:
                v["detail"]["session"] = i
                v["detail"]["call"] = s["calls"].index(c)
                viols.append(v)
                break
        else:
            later = [r for r in obs["sessions"].get("s%d" % i, []) if r["op"] == "dump"]
            if len(later) == len(s["calls"]) and len(s["calls"]) >= 2:
                for ci, (c, rec, dm) in enumerate(zip(s["calls"], recs, later)):
                    if "exc" in rec or "exc" in dm or rec.get("ok") is None:
                        continue
                    first = rec["ok"]["tree"] if c["op"] == "delete_terminal" else rec["ok"]
                    st.check("results_looked_at_again_at_session_end")
                    if dm["ok"] != first:
                        viols.append(cm.viol("C11/%s/result-changed-by-later-calls" % c["op"],
                                             session=i, call=ci, of=len(s["calls"])))
                        break
    shape = tuple(tuple((c["op"], psig(c["params"]),
                         (s["files"].get(c["params"].get("terminalfile")) or {}).get("kind"))
                        for c in s["calls"]) for s in sc["sessions"])
    nontrivial = any(len(s["calls"]) >= 2 for s in sc["sessions"]) or len(sc["sessions"]) >= 2
    sample = {"sessions": [[{"op": c["op"], "params": c["params"],
                             "words": [t[0] for t in c["sent"]["tokens"]][:8]}
                            for c in s["calls"]] for s in sc["sessions"]],
              "files": dict((p, f["text"][:80]) for s in sc["sessions"]
                            for p, f in s["files"].items())}
    return {"violations": viols, "stats": st.done(repr(shape), nontrivial, sample)}


def shrink_candidates(sc):
    if len(sc["sessions"]) > 1:
        for i in range(len(sc["sessions"])):
            c = model.clone(sc)
            del c["sessions"][i]
            c["schedule"] = []
            yield c
    if sc.get("schedule"):
        c = model.clone(sc)
        c["schedule"] = []
        yield c
    for i, s in enumerate(sc["sessions"]):
        for j in range(len(s["calls"]) - 1, -1, -1):
            if len(s["calls"]) > 1:
                c = model.clone(sc)
                del c["sessions"][i]["calls"][j]
                yield c
        for p in sorted(s["files"]):
            lines = s["files"][p]["text"].split("\n")
            for k in range(len(lines)):
                if lines[k] == "":
                    continue
                c = model.clone(sc)
                rest = [l for l in lines[:k] + lines[k + 1:] if l != ""]
                c["sessions"][i]["files"][p]["text"] = "\n".join(rest) + ("\n" if rest else "")
                yield c
        for j, call in enumerate(s["calls"]):
            for flag in ("via_export", "then_filter", "written_before"):
                if call.get(flag):
                    c = model.clone(sc)
                    del c["sessions"][i]["calls"][j][flag]
                    yield c
            for key in sorted(call["params"]):
                if key in ("terminalfile", "filteroperator", "filtervalue", "num"):
                    continue
                c = model.clone(sc)
                del c["sessions"][i]["calls"][j]["params"][key]
                yield c
            for s2 in model.shrink_sentence(call["sent"]):
                if len(s2["tokens"]) < 2:
                    continue
                if call["op"] == "delete_terminal" and call["params"]["num"] > len(s2["tokens"]):
                    continue
                c = model.clone(sc)
                c["sessions"][i]["calls"][j]["sent"] = s2
                yield c
