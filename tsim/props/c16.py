"""C16 - gap-degree analysis agrees with the set-based definition everywhere it is used.

Simulated: the three analysis tasks as accumulators over a stream - through the real
`treeanalysis` command over the simulated file system (short reads) and through the API stepped
tree by tree with two task instances interleaved - plus treebank concatenation A+B.  On every
tree that flows through a run the three notions of discontinuity must agree.
Oracle: conservation (totals, histograms, additivity) against the model; cross-component
consistency invariant; per-node blocks/gap degree; disco_order permutation property.
"""
import random
import re

from .. import model, treeview
from . import common as cm

ID = "C16"
RULE = ("scenario = two seeded treebanks A, B; the three analysis tasks run through the CLI on A, "
        "B and A+B (rendered in a seeded source format, short reads) and through the API with "
        "two task instances interleaved; per tree: gap_degree vs bracket-writer refusal vs "
        "context-freeness of its grammar, per-node gap degree and blocks, disco_order on the "
        "binarized tree. Distinct = distinct (source format, shape classes, max gap degree). "
        "Non-trivial = some node of gap degree >= 1 or >= 2 sentences.")
ASSUMPTIONS = ["the report format of GapDegree/PosTags/SentenceCount.done() is parsed by regular "
               "expressions written from the current output; a changed wording is reported as "
               "report-unparsable, not silently accepted"]


def budget(tier):
    return 2500 if tier == "quick" else 200000


def generate(seed, tier):
    rng = random.Random(seed)
    fmt = rng.choice(["export", "tigerxml", "discobrackets", "brackets"])
    k = model.swarm_knobs(rng, tier, allow=("ascii", "latin1"), continuous=(fmt == "brackets"))
    if fmt != "brackets":
        k["disc"] = rng.choice([0.0, 0.3, 0.6, 0.9])
    A = model.gen_treebank(rng, k, nsent=rng.choice([1, 2, 3, 5]), sid_pattern="consecutive")
    B = model.gen_treebank(rng, k, nsent=rng.choice([1, 2, 4]), sid_pattern="consecutive")
    if rng.random() < 0.04:
        A = []                                    # an empty file: all totals are zero
    for i, s in enumerate(B):
        s["sid"] = len(A) + 1 + i
    emptypos = False
    if fmt == "brackets" and rng.random() < 0.4:
        emptypos = True
        for s_ in A + B:
            for t in s_["tokens"]:
                if rng.random() < 0.3:
                    t[1] = "EMPTY"
    return {"A": A, "B": B, "fmt": fmt, "layout": rng.randrange(1 << 30), "emptypos": emptypos,
            "shuffle": rng.randrange(1 << 30), "io_seed": rng.randrange(1 << 30),
            "schedule": cm.gen_schedule(rng, 2, 3 * (len(A) + len(B)) + 6),
            "mode": rng.choice(["left", "rightd"]),
            "edit": rng.choice(["root_attach", "root_attach", "punctuation_root",
                                "punctuation_delete"])}


def SRCOPT(sc):
    return ["brackets_emptypos"] if sc.get("emptypos") else []


def histograms(tb):
    per_tree, per_node, nodes = {}, {}, 0
    for s in tb:
        mx = 0
        for c in model.constituents(s["root"]):
            g = model.gap_degree_node(c)
            per_node[g] = per_node.get(g, 0) + 1
            nodes += 1
            mx = max(mx, g)
        per_tree[mx] = per_tree.get(mx, 0) + 1
    return per_tree, per_node, nodes


RE_TOTAL = re.compile(r"^(\d+) trees, (\d+) nodes$")
RE_LINE = re.compile(r"^Gap degree\s+(\d+):\s+(\d+) (trees|nodes) \(\s*([0-9.]+)%\)$")


def parse_gap_report(out):
    tot = None
    per = {"trees": {}, "nodes": {}}
    for line in out.split("\n"):
        m = RE_TOTAL.match(line.strip())
        if m:
            tot = (int(m.group(1)), int(m.group(2)))
        m = RE_LINE.match(line.strip())
        if m:
            per[m.group(3)][int(m.group(1))] = int(m.group(2))
    if tot is None:
        return None
    return tot, per["trees"], per["nodes"]


def parse_int(out, word):
    m = re.search(r"(\d+) %s" % word, out)
    return int(m.group(1)) if m else None


CODEC = {"export": "export4", "tigerxml": "tigerxml", "discobrackets": "discobrackets",
         "brackets": "brackets"}
EXT = {"export": ".export", "tigerxml": ".xml", "discobrackets": ".dbr", "brackets": ".mrg"}


def execute(sc, sim):
    st = cm.Stats()
    st.declare("task_after_same_task_on_other_file", "edit_changed_gap_degree", "node_gap_degree_2plus", "gaps_at_several_levels", "unary_node",
               "two_task_instances_interleaved", "discontinuous_tree_refused_by_bracket_writer",
               "disco_order_nonidentity", "reordering_of_tree_made_continuous")
    viols = []
    A, B, fmt = sc["A"], sc["B"], sc["fmt"]
    AB = A + B
    for s in AB:
        degs = [model.gap_degree_node(c) for c in model.constituents(s["root"])]
        if max(degs) >= 2:
            st.probe("node_gap_degree_2plus")
        if sum(1 for d in degs if d > 0) >= 2:
            st.probe("gaps_at_several_levels")
        if any(len(c[2]) == 1 for c in model.constituents(s["root"])):
            st.probe("unary_node")
    files = {}
    for name, tb in (("A", A), ("B", B), ("AB", AB)):
        files["/sim/w/%s%s" % (name, EXT[fmt])] = cm.render_file(
            {"tb": tb, "codec": CODEC[fmt], "layout": sc["layout"], "enc": "utf-8",
             "kw": {"emptypos": True} if sc.get("emptypos") else {}})
    # ---- CLI runs: the three tasks on one file in one simulated process (so a task runs after
    # other tasks), for half of the scenarios preceded by a run of a task on ANOTHER file in the
    # same process (K5: history must not leak into the report)
    reports = {}
    hist_rng = random.Random(sc["io_seed"])
    for name in ("A", "B", "AB"):
        ops = []
        if hist_rng.random() < 0.5:
            other = {"A": "B", "B": "AB", "AB": "A"}[name]
            ops.append(["cli", ["treeanalysis", "/sim/w/%s%s" % (other, EXT[fmt]),
                                hist_rng.choice(["GapDegree", "PosTags", "SentenceCount"]),
                                "--src-format", fmt, "--src-opts", "quiet"] + SRCOPT(sc)])
            st.fault("history")
            st.probe("task_after_same_task_on_other_file")
        npre = len(ops)
        tasks = ["GapDegree", "PosTags", "SentenceCount"]
        hist_rng.shuffle(tasks)
        for task in tasks:
            ops.append(["cli", ["treeanalysis", "/sim/w/%s%s" % (name, EXT[fmt]), task,
                                "--src-format", fmt, "--src-opts", "quiet"] + SRCOPT(sc)])
        spec = {"files": files, "io_seed": sc["io_seed"],
                "sessions": [{"id": "c", "ops": ops, "on_error": "continue"}]}
        obs = sim.run(spec)
        st.add_obs(obs)
        if name == "AB" and sc["io_seed"] % 40 == 0:
            cm.real_crosscheck(sim, st, spec, obs, stdout=True)
        recs = obs["sessions"]["c"]
        for task, rec in zip(tasks, recs[npre:]):
            if "exc" in rec or rec["ok"].get("exit") != 0:
                viols.append(cm.viol("C16/cli-failed/%s/%s" % (task, rec.get("exc") or "exit"),
                                     fmt=fmt, msg=rec.get("msg")))
                return done(sc, st, viols)
            reports[(task, name)] = rec.get("out", "")
    for name, tb in (("A", A), ("B", B), ("AB", AB)):
        v = judge_reports(reports, name, tb, "cli", st)
        if v:
            return done(sc, st, [v])
    # additivity A+B = A (+) B on the parsed reports
    ga, gb, gab = [parse_gap_report(reports[("GapDegree", n)]) for n in ("A", "B", "AB")]
    st.check("additivity_triples")
    add = lambda x, y: dict((k, x.get(k, 0) + y.get(k, 0)) for k in set(x) | set(y))
    if (ga[0][0] + gb[0][0], ga[0][1] + gb[0][1]) != gab[0] or add(ga[1], gb[1]) != gab[1] \
            or add(ga[2], gb[2]) != gab[2]:
        return done(sc, st, [cm.viol("C16/additivity/GapDegree", a=ga, b=gb, ab=gab)])
    sa, sb, sab = [parse_int(reports[("SentenceCount", n)], "sentences") for n in ("A", "B", "AB")]
    if sa + sb != sab:
        return done(sc, st, [cm.viol("C16/additivity/SentenceCount", a=sa, b=sb, ab=sab)])
    # ---- API: two task instances interleaved, one over A, one over B
    sessions = []
    for name, tb in (("A", A), ("B", B)):
        ops = [["task_new", "g", "GapDegree"], ["task_new", "p", "PosTags"],
               ["task_new", "c", "SentenceCount"]]
        for j, s in enumerate(tb):
            ops.append(["build", "t", s, sc["shuffle"] + j])
            ops += [["task_run", "g", "t"], ["task_run", "p", "t"], ["task_run", "c", "t"]]
        ops += [["task_done", "g"], ["task_done", "p"], ["task_done", "c"]]
        sessions.append({"id": name, "ops": ops})
    obs = sim.run({"sessions": sessions, "schedule": sc["schedule"]})
    st.add_obs(obs)
    if st.d["faults"].get("interleave"):
        st.probe("two_task_instances_interleaved")
    for name, tb in (("A", A), ("B", B)):
        recs = obs["sessions"].get(name, [])
        bad = [r for r in recs if "exc" in r]
        if bad:
            return done(sc, st, [cm.viol("C16/api-raised/%s/%s" % (bad[0]["op"], bad[0]["exc"]),
                                         msg=bad[0].get("msg"))])
        outs = [r.get("out", "") for r in recs if r["op"] == "task_done"]
        if len(outs) != 3:
            continue
        rep = {("GapDegree", name): outs[0], ("PosTags", name): outs[1],
               ("SentenceCount", name): outs[2]}
        v = judge_reports(rep, name, tb, "api", st)
        if v:
            return done(sc, st, [v])
    # ---- per tree: cross-component consistency, per-node functions, disco_order
    ops = []
    for j, s in enumerate(AB):
        ops += [["build", "t", s, sc["shuffle"] + j], ["call", "gap_degree", "t"],
                ["call", "nodefns", "t"],
                ["build", "w", s, sc["shuffle"] + j], ["sio", "o"], ["write", "brackets", "w", "o"],
                ["build", "x", s, sc["shuffle"] + j], ["gnew", "g"], ["extract", "x", "g"],
                ["gcf", "g"],
                ["build", "b", s, sc["shuffle"] + j], ["trans", "b", "negra_mark_heads", {}],
                ["trans", "b", "binarize", {}], ["call", "disco_order", "b", sc["mode"]],
                # the same tree object queried, changed in place, and queried again
                ["build", "q", s, sc["shuffle"] + j], ["call", "gap_degree", "q"],
                ["call", "nodefns", "q"], ["trans", "q", sc.get("edit", "root_attach"), {}],
                ["call", "gap_degree", "q"], ["call", "nodefns", "q"],
                # the bracket writer handed a constituent instead of a whole sentence
                ["build", "u", s, sc["shuffle"] + j], ["call", "subwrite", "u", sc["io_seed"] + j]]
    obs = sim.run({"sessions": [{"id": "t", "ops": ops, "on_error": "continue"}]})
    st.add_obs(obs)
    recs = obs["sessions"].get("t", [])
    per = 22
    for j, s in enumerate(AB):
        r = recs[j * per:(j + 1) * per]
        if len(r) < per:
            break
        st.check("trees_cross_checked")
        want = model.gap_degree(s)
        gd = r[1]
        if "exc" in gd:
            return done(sc, st, [cm.viol("C16/gap_degree/raised/%s" % gd["exc"])])
        if gd["ok"] != want:
            return done(sc, st, [cm.viol("C16/gap_degree/tree-value", expected=want,
                                         got=gd["ok"], sentence=j)])
        # per node
        nf = r[2]
        if "exc" in nf:
            return done(sc, st, [cm.viol("C16/node-functions/raised/%s" % nf["exc"])])
        dump = r[0]["ok"]
        nt = treeview.node_tokens(dump)
        for nid, g, blocks in nf["ok"]:
            runs = model.runs(nt[nid])
            if g != len(runs) - 1:
                return done(sc, st, [cm.viol("C16/gap_degree_node/value", expected=len(runs) - 1,
                                             got=g, tokens=nt[nid])])
            if blocks != runs:
                return done(sc, st, [cm.viol("C16/terminal_blocks/partition", expected=runs,
                                             got=blocks)])
        refused = "exc" in r[5]
        noncf = (not r[9]["ok"]) if "ok" in r[9] else None
        if refused:
            st.probe("discontinuous_tree_refused_by_bracket_writer")
        if not (refused == (want > 0) and noncf == (want > 0)):
            return done(sc, st, [cm.viol("C16/discontinuity-notions-disagree", gap_degree=want,
                                         bracket_writer_refused=refused,
                                         grammar_not_contextfree=noncf, sentence=j)])
        sw = r[21]
        if "exc" in sw:
            return done(sc, st, [cm.viol("C16/bracket-writer-on-constituent/raised/%s"
                                         % sw["exc"])])
        if sw["ok"] is not None and "ok" in r[20]:
            nt_u = treeview.node_tokens(r[20]["ok"])
            below = set()
            todo = [sw["ok"][0]]
            idx_u = treeview.index(r[20]["ok"])
            while todo:
                x = todo.pop()
                below.add(x)
                todo.extend(idx_u[x]["c"])
            gaps = max(len(model.runs(nt_u[x])) - 1 for x in below if idx_u[x]["c"])
            st.check("constituents_handed_to_bracket_writer")
            if (gaps > 0) != (sw["ok"][1] == "refused"):
                return done(sc, st, [cm.viol("C16/discontinuity-notions-disagree/constituent",
                                             gap_degree=gaps, writer=sw["ok"][1])])
        do = r[13]
        if "exc" in r[11] or "exc" in r[12]:
            continue
        if "exc" in do:
            return done(sc, st, [cm.viol("C16/disco_order/raised/%s" % do["exc"],
                                         mode=sc["mode"])])
        n = len(s["tokens"])
        if sorted(do["ok"]) != list(range(1, n + 1)):
            return done(sc, st, [cm.viol("C16/disco_order/not-a-permutation", got=do["ok"],
                                         mode=sc["mode"])])
        if want == 0 and do["ok"] != list(range(1, n + 1)):
            return done(sc, st, [cm.viol("C16/disco_order/continuous-tree-not-identity",
                                         got=do["ok"], mode=sc["mode"])])
        if do["ok"] != list(range(1, n + 1)):
            st.probe("disco_order_nonidentity")
    # query - edit in place - query again
    for j, s in enumerate(AB):
        r = recs[j * per:(j + 1) * per]
        if len(r) < per or any("exc" in x for x in r[14:20]):
            continue
        after = r[17]["ok"]
        if after is None or treeview.wellformed(after):
            continue
        nt = treeview.node_tokens(after)
        idx = treeview.index(after)
        want = max(len(model.runs(nt[n_["id"]])) - 1 for n_ in after["nodes"] if n_["c"])
        st.check("requery_after_in_place_edit")
        if want != model.gap_degree(s):
            st.probe("edit_changed_gap_degree")
        if r[18]["ok"] != want:
            return done(sc, st, [cm.viol("C16/gap_degree/stale-after-in-place-edit",
                                         edit=sc.get("edit", "root_attach"), expected=want,
                                         got=r[18]["ok"], before=r[15]["ok"], sentence=j)])
        for nid, g, blocks in r[19]["ok"]:
            if nid in nt and idx[nid]["c"]:
                runs = model.runs(nt[nid])
                if g != len(runs) - 1 or blocks != runs:
                    return done(sc, st, [cm.viol("C16/node-functions/stale-after-in-place-edit",
                                                 edit=sc.get("edit", "root_attach"),
                                                 expected=[len(runs) - 1, runs],
                                                 got=[g, blocks], sentence=j)])
    # ---- trees as the reader delivers them, after a pipeline that changes yields (whatever
    # the reader recorded about a node is stale then), binarized and reordered
    pipe = PIPES[sc["io_seed"] % len(PIPES)]
    body = [["trans", "t", name, {}] for name in pipe] + [["trans", "t", "binarize", {}],
                                                          ["call", "disco_order", "t", sc["mode"]]]
    src = "/sim/w/AB%s" % EXT[fmt]
    sopts = {"quiet": True}
    if sc.get("emptypos"):
        sopts["brackets_emptypos"] = True
    obs = sim.run({"files": {src: files[src]}, "io_seed": sc["io_seed"],
                   "sessions": [{"id": "r", "on_error": "continue",
                                 "ops": [["reader", "r", fmt, src, "utf-8", sopts],
                                         ["loop", "r", "t", body]]}]})
    st.add_obs(obs)
    recs = obs["sessions"].get("r", [])[1:]
    i = 0
    while i < len(recs):
        if recs[i]["op"] != "next" or "exc" in recs[i] or recs[i].get("ok") == "STOP":
            break
        chunk = recs[i + 1:i + 1 + len(body)]
        i += 1
        while i < len(recs) and recs[i]["op"] != "next":
            i += 1
        if len(chunk) < len(body) or any("exc" in x for x in chunk[:-1]) \
                or any(x["op"] == "next" for x in chunk):
            continue                      # a step was refused or dropped the tree
        tree = chunk[-2]["ok"]
        do = chunk[-1]
        if tree is None or treeview.wellformed(tree):
            continue
        st.check("reordering_of_transformed_reader_trees")
        nt = treeview.node_tokens(tree)
        gap = max(len(model.runs(nt[n_["id"]])) - 1 for n_ in tree["nodes"] if n_["c"])
        n = len([n_ for n_ in tree["nodes"] if not n_["c"]])
        if "exc" in do:
            return done(sc, st, [cm.viol("C16/disco_order/raised/%s" % do["exc"],
                                         mode=sc["mode"], after=pipe)])
        if sorted(do["ok"]) != list(range(1, n + 1)):
            return done(sc, st, [cm.viol("C16/disco_order/not-a-permutation", got=do["ok"],
                                         mode=sc["mode"], after=pipe)])
        if gap == 0:
            st.probe("reordering_of_tree_made_continuous")
            if do["ok"] != list(range(1, n + 1)):
                return done(sc, st, [cm.viol("C16/disco_order/continuous-tree-not-identity",
                                             got=do["ok"], mode=sc["mode"], after=pipe)])
    return done(sc, st, viols)


PIPES = [["root_attach", "negra_mark_heads", "boyd_split", "raising"],
         ["punctuation_delete", "negra_mark_heads"],
         ["root_attach", "negra_mark_heads"],
         ["negra_mark_heads", "boyd_split", "raising"],
         ["negra_mark_heads"]]


def judge_reports(reports, name, tb, path, st):
    st.check("reports_judged")
    per_tree, per_node, nodes = histograms(tb)
    g = parse_gap_report(reports[("GapDegree", name)])
    if g is None:
        return cm.viol("C16/report-unparsable/GapDegree", path=path,
                       out=reports[("GapDegree", name)][:200])
    if g[0] != (len(tb), nodes):
        return cm.viol("C16/conservation/GapDegree-totals", path=path, expected=[len(tb), nodes],
                       got=list(g[0]))
    if g[1] != per_tree:
        return cm.viol("C16/conservation/GapDegree-per-tree", path=path, expected=per_tree,
                       got=g[1])
    if g[2] != per_node:
        return cm.viol("C16/conservation/GapDegree-per-node", path=path, expected=per_node,
                       got=g[2])
    if sum(g[1].values()) != g[0][0] or sum(g[2].values()) != g[0][1]:
        return cm.viol("C16/conservation/per-degree-sums", path=path)
    tags = parse_int(reports[("PosTags", name)], "different tags")
    want = len(set(t[1] for s in tb for t in s["tokens"]))
    if tags != want:
        return cm.viol("C16/conservation/PosTags", path=path, expected=want, got=tags)
    n = parse_int(reports[("SentenceCount", name)], "sentences")
    if n != len(tb):
        return cm.viol("C16/conservation/SentenceCount", path=path, expected=len(tb), got=n)
    return None


def done(sc, st, viols):
    AB = sc["A"] + sc["B"]
    shape = (sc["fmt"], model.shape_class(sc["A"]), model.shape_class(sc["B"]), sc["mode"])
    nontrivial = any(model.gap_degree(s) > 0 for s in AB) or len(AB) >= 2
    sample = {"fmt": sc["fmt"], "A": cm.tb_summary(sc["A"]), "B": cm.tb_summary(sc["B"]),
              "mode": sc["mode"]}
    return {"violations": viols, "stats": st.done(repr(shape), nontrivial, sample)}


def shrink_candidates(sc):
    for key in ("A", "B"):
        for tb in model.shrink_treebank(sc[key]):
            if tb:
                c = model.clone(sc)
                c[key] = tb
                for i, s in enumerate(c["A"] + c["B"]):
                    s["sid"] = i + 1
                yield c
    if sc["fmt"] != "export":
        c = model.clone(sc)
        c["fmt"] = "export"
        yield c
    if sc.get("schedule"):
        c = model.clone(sc)
        c["schedule"] = []
        yield c
