"""C01 - readers decode every well-formed treebank file faithfully.

Simulated: 1-3 source files on the simulated file system (plain/gzip, three encodings, seeded
layouts), 1-3 live readers interleaved at next() granularity by a seeded schedule, short
reads.  Oracle: refinement against the model treebank the file was rendered from (clean
mode); recogniser verdicts on damaged bracket files (damage mode, K8).
"""
import random

from .. import model, treeview, views
from .. import refcodec as rc
from . import common as cm

ID = "C01"
RULE = ("scenario = 1-3 files rendered from seeded model treebanks by the reference encoders "
        "(format, layout, encoding, gzip, reader options drawn per scenario) + 1-3 readers "
        "stepped by a seeded schedule with short reads; damage mode additionally truncates / "
        "loses / duplicates / flips stored bytes of bracket files. Distinct = distinct tuple "
        "(mode, formats, option names, encoding, gzip, shape class, #readers, damage kind). "
        "Non-trivial = some reader yields >=2 sentences (per-sentence reset exercised) or >=2 "
        "readers are interleaved or a damage fault fired.")
ASSUMPTIONS = [
    "reference encoders emit only layouts the format documentation allows (unit-tested by "
    "round trip through the reference decoders)",
    "gf_split reference follows the label grammar in parse_label's docstring; labels are "
    "drawn from LABEL(-GF)?(=n)?(-n)? only",
    "disco_reordered ('output CF order with terminal indices'): tokens in the order of the "
    "tree part of the line, numbered 1..n, word = '<index>-<word of that index>'",
    "damage verdicts only for bracket files (the property's last sentence)",
]


def budget(tier):
    return 8000 if tier == "quick" else 600000


GFS = ["SB", "OA", "HD", "MO"]


def decorate(tb, rng, sep):
    """Put grammatical functions / indices into labels (file content for gf_split runs)."""
    for s in tb:
        for c in model.constituents(s["root"])[1:]:
            if rng.random() < 0.6:
                c[0] = c[0] + sep + rng.choice(GFS)
            # gap and co-indices keep their own separators whatever the function separator
            if rng.random() < 0.2:
                c[0] += "=%d" % rng.randint(1, 3)
            if rng.random() < 0.3:
                c[0] += "-%d" % rng.randint(1, 9)
        for t in s["tokens"]:
            if rng.random() < 0.3 and t[1].isalpha():
                t[1] = t[1] + sep + rng.choice(GFS)


# ---------------------------------------------------------------------------------- generate
def gen_file(rng, tier, i, mode, force=None):
    force = force or {}
    fmt = rng.choice(["export", "export", "tigerxml", "brackets", "brackets", "discobrackets"])
    if mode == "damage":
        fmt = rng.choice(["brackets", "brackets", "brackets", "discobrackets"])
    if force.get("gz") and fmt == "tigerxml":
        fmt = "export"
    fmt = force.get("fmt", fmt)
    enc = rng.choice(["utf-8", "utf-8", "latin-1", "utf-16"])
    opts = {}
    kw = {}
    paren = False
    if rng.random() < 0.5:
        opts["quiet"] = True
    if rng.random() < 0.25:
        opts["replace_parens"] = True
        paren = True
    allow = cm.word_classes_for(enc, paren=paren)
    if fmt != "export" and enc != "latin-1":
        allow.append("uspace")          # NBSP & co.: token characters, not separators
    if fmt == "discobrackets":
        allow.append("parentok")        # ( and ) as words of the token line
    continuous = fmt == "brackets"
    k = model.swarm_knobs(rng, tier, allow=allow, continuous=continuous)
    if fmt in ("export", "tigerxml") and rng.random() < 0.2:
        k["pos_paren"] = True
        k["punct"], k["pair"] = max(k["punct"], 0.2), max(k["pair"], 0.15)
    if fmt == "brackets" and "parentok" in k["words"]:
        k["words"] = [w for w in k["words"] if w != "parentok"] + ["ascii"]
    if fmt in ("brackets", "discobrackets") and "paren" in k["words"]:
        # raw parentheses cannot be written into a bracket file: only the -LRB- style names
        k["words"] = [w for w in k["words"] if w != "paren"] + ["ascii"]
    tb = model.gen_treebank(rng, k)
    if rng.random() < 0.02 and mode == "clean":
        tb = []                                   # a treebank file without any sentence
    if (rng.random() < 0.04 or force.get("long")) and mode == "clean":
        # a long file: crosses the 8192 / 16384 character and byte buffer boundaries
        k["n_max"] = max(k["n_max"], 5)
        tb = model.gen_treebank(rng, k, nsent=rng.randint(120, 250 if force.get("long") else 400),
                                sid_pattern="consecutive")
    if rng.random() < 0.004 and mode == "clean" and fmt in ("brackets", "discobrackets"):
        k["n_max"], k["n_min"], k["words"] = 8, 5, ["len", "ascii"]
        tb = model.gen_treebank(rng, k, nsent=rng.randint(700, 1100), sid_pattern="consecutive")
    if rng.random() < 0.01 and mode == "clean" and fmt != "tigerxml":
        tb = [model.gen_sentence(rng, k, 1), model.big_sentence(rng, rng.choice([500, 499]), 2)]
    if paren and fmt in ("brackets", "discobrackets"):
        for s in tb:
            for t in s["tokens"]:
                if rng.random() < 0.3:
                    t[0] = rng.choice(["-LRB-", "-RRB-", "-LSB-", "-RCB-", "x-LRB-y"])
    codec = fmt
    if fmt == "export":
        codec = rng.choice(["export3", "export4"])
        if rng.random() < 0.3:
            opts["continuous"] = True
    elif fmt == "tigerxml":
        if rng.random() < 0.3:
            opts["continuous"] = True
    if fmt == "brackets":
        if rng.random() < 0.3:
            opts["brackets_firstid"] = rng.choice([0, 2, 17, 1000])
        if rng.random() < 0.25 and mode == "clean":
            opts["brackets_emptypos"] = True
            kw["emptypos"] = True
            for s in tb:
                for t in s["tokens"]:
                    if rng.random() < 0.4:
                        t[1] = "EMPTY"
                        if rng.random() < 0.3:
                            # a word without tag that looks like a decorated label
                            t[0] = rng.choice(["a-b", "e-mail", "x-1", "-", "a-b-c", "NP-SBJ",
                                               "y=2", "z'"])
    if rng.random() < 0.3 and mode == "clean":
        opts["gf_split"] = True
        if "brackets_emptypos" not in opts and rng.random() < 0.2:
            # the tag EMPTY as an ordinary tag of the file (what a conversion of a
            # brackets_emptypos source leaves in every other format)
            for s in tb:
                for t in s["tokens"]:
                    if rng.random() < 0.3:
                        t[1] = "EMPTY"
        sep = "-"
        if rng.random() < 0.3:
            sep = "#"
            opts["gf_separator"] = "#"
        if fmt in ("brackets", "discobrackets") and sep == "-" and rng.random() < 0.5:
            kw["gf"] = True
        else:
            decorate(tb, rng, sep)
    if fmt == "discobrackets" and mode == "clean" and rng.random() < 0.3:
        opts["disco_reordered"] = True
    gz = (rng.random() < 0.25 or bool(force.get("gz"))) and fmt != "tigerxml"
    ext = {"export": ".export", "tigerxml": ".xml", "brackets": ".mrg",
           "discobrackets": ".dbr"}[fmt]
    path = "/sim/w/f%d%s%s" % (i, ext, ".gz" if gz else "")
    if force.get("dir"):
        path = "/sim/w/%s/part%s%s" % (force["dir"], ext, ".gz" if gz else "")
    d = {"path": path, "fmt": fmt, "codec": codec, "tb": tb, "layout": rng.randrange(1 << 30),
         "enc": enc, "gz": gz, "kw": kw, "opts": opts}
    if gz and rng.random() < 0.25:
        # a gzip file of several members (cat a.gz b.gz, appended archives): member boundaries
        # at these fractions of the content
        d["gz_members"] = sorted(rng.random() for _ in range(rng.choice([1, 1, 2, 3])))
    if fmt == "tigerxml" and rng.random() < 0.4:
        d["enc_arg"] = rng.choice(["utf-8", "latin-1", "utf-16"])    # documented to be ignored
    return d


def vary_opts(rng, f):
    """Other reader options for a second reader of the same file."""
    o = dict(f["opts"])
    fmt = f["fmt"]
    for _ in range(rng.choice([1, 1, 2])):
        what = rng.choice(["gf_split", "gf_separator", "replace_parens", "quiet", "numbering"])
        if what == "gf_split" and "brackets_emptypos" not in o:
            if "gf_split" in o:
                del o["gf_split"]
                o.pop("gf_separator", None)
            else:
                o["gf_split"] = True
        elif what == "gf_separator" and "brackets_emptypos" not in o:
            o["gf_split"] = True
            if o.get("gf_separator") == "#":
                del o["gf_separator"]
            else:
                o["gf_separator"] = "#"
        elif what == "replace_parens":
            if "replace_parens" in o:
                del o["replace_parens"]
            else:
                o["replace_parens"] = True
        elif what == "quiet":
            if "quiet" in o:
                del o["quiet"]
            else:
                o["quiet"] = True
        elif what == "numbering":
            if fmt in ("export", "tigerxml"):
                if "continuous" in o:
                    del o["continuous"]
                else:
                    o["continuous"] = True
            elif fmt == "brackets":
                o["brackets_firstid"] = rng.choice([0, 3, 50])
    return o


def junk_lexemes(rng, n):
    """A random sequence of n lexemes of the bracket language (Appendix A): samples the space
    of token-class sequences directly instead of through damage to a well-formed file."""
    out = []
    for _ in range(n):
        k = rng.choice("LLLRRRWWTTT")
        if k == "L":
            out.append("(")
        elif k == "R":
            out.append(")")
        elif k == "W":
            out.append(rng.choice([" ", " ", "\n", "\t", "  ", " \n"]))
        else:
            out.append(rng.choice(["a", "NP", "x", "S", "-", "b."]))
    return "".join(out)


def generate(seed, tier):
    rng = random.Random(seed)
    mode = "clean" if rng.random() < 0.65 else "damage"
    nfiles = rng.choice([1, 1, 2, 3])
    if mode == "clean" and rng.random() < 0.025:
        # gzip sources bigger than an I/O buffer, under the same name in different directories,
        # read by readers that are alive at the same time
        first = gen_file(rng, tier, 0, mode, {"gz": True, "long": True, "dir": "train"})
        force = {"gz": True, "long": rng.random() < 0.5, "dir": "test"}
        if rng.random() < 0.6:
            force["fmt"] = first["fmt"]
        files = [first, gen_file(rng, tier, 1, mode, force)]
        nfiles = 2
    else:
        files = [gen_file(rng, tier, i, mode) for i in range(nfiles)]
    for f in files:
        if not rc.encodable(f["tb"], f["enc"]):
            f["enc"] = "utf-8"
    readers = [{"file": i} for i in range(nfiles)]
    if nfiles < 3 and rng.random() < 0.3:
        readers.append({"file": rng.randrange(nfiles)})      # two readers of one file
        if mode == "clean" and rng.random() < 0.6:
            # ... the second one with other options: what one reader is told must not reach
            # another reader of the same lines in the same process
            readers[-1]["opts"] = vary_opts(rng, files[readers[-1]["file"]])
    nsteps = sum(len(files[r["file"]]["tb"]) + 2 for r in readers)
    sc = {"mode": mode, "files": files, "readers": readers,
          "schedule": cm.gen_schedule(rng, len(readers), nsteps + 4),
          "io_seed": rng.randrange(1 << 30), "short_reads": rng.random() < 0.8}
    if mode == "damage":
        f = files[0]
        data = cm.render_file({k: v for k, v in f.items() if k != "damage"})
        n = max(1, len(data))
        how = rng.choice(["truncate", "truncate", "lose_block", "dup_block", "bitflip",
                          "insert", "overwrite", "junk"])
        if f["fmt"] == "discobrackets":
            how = "truncate"
        dmg = {"how": how, "at": rng.randrange(n), "len": rng.randint(1, 12),
               "bit": rng.randrange(7)}
        if how == "insert":
            dmg["bytes"] = rng.choice(["(", ")", " ", "x", "((", "))", ") (", "( "])
        if how in ("overwrite", "junk"):
            dmg["bytes"] = junk_lexemes(rng, rng.randint(1, 6) if how == "overwrite"
                                        else rng.randint(1, 14))
            dmg["enc"] = f["enc"]
        f["damage"] = dmg
        f["gz"] = False
        f["path"] = f["path"][:-3] if f["path"].endswith(".gz") else f["path"]
    return sc


# ---------------------------------------------------------------------------------- expect
def expected_trees(f, opts=None):
    return views.read_view(f["tb"], f["fmt"], f["codec"], f["opts"] if opts is None else opts,
                           f.get("kw", {}))


def compare(exp, got, fmt, codec, opts):
    return views.compare(exp, got)


# ---------------------------------------------------------------------------------- execute
def optsig(opts, category=None):
    """Options that can influence the clause named by category (keeps signatures few)."""
    if category == "sentence-id":
        rel = ("continuous", "brackets_firstid")
    else:
        rel = ("gf_split", "gf_separator", "replace_parens", "brackets_emptypos",
               "disco_reordered")
    names = sorted(k for k in opts if k in rel)
    return "+".join(names) if names else "default"


def build_spec(sc):
    files = {}
    for f in sc["files"]:
        files[f["path"]] = cm.render_file(f)
    sessions = []
    for j, r in enumerate(sc["readers"]):
        f = sc["files"][r["file"]]
        sessions.append({"id": "r%d" % j, "ops": [
            ["reader", "r", f["fmt"], f["path"], f.get("enc_arg", f["enc"]),
             r.get("opts", f["opts"])],
            ["loop", "r", "t", []]]})
    return {"files": files, "sessions": sessions, "schedule": sc.get("schedule", []),
            "io_seed": sc.get("io_seed", 0), "short_reads": sc.get("short_reads", True)}


def execute(sc, sim):
    st = cm.Stats()
    st.declare("second_reader_of_a_file_with_other_options", "long_file_crossing_buffer_boundaries", "file_with_2plus_sentences", "two_readers_same_format_interleaved",
               "gzip_source_opened", "utf16_source", "multibyte_char_split_by_short_read",
               "node_with_2plus_gaps", "unary_root", "gf_split_used", "replace_parens_used",
               "emptypos_token", "damage_inside_group", "damage_between_groups",
               "damaged_file_still_wellformed", "reader_rejected_damaged_file",
               "gzip_file_of_several_members", "big_gzip_files_same_name_read_alternately",
               "untagged_word_with_gf_split")
    viols = []
    spec = build_spec(sc)
    obs = sim.run(spec)
    st.add_obs(obs)
    if obs.get("hang"):
        viols.append(cm.viol("C01/hang", note="simulated process exceeded its alarm"))
    if any(f.get("gz_members") for f in sc["files"]):
        st.probe("gzip_file_of_several_members")
    if len(sc["files"]) == 2 and all(f["gz"] and "/part." in f["path"] for f in sc["files"]):
        st.probe("big_gzip_files_same_name_read_alternately")
    if any("brackets_emptypos" in f["opts"] and "gf_split" in f["opts"] for f in sc["files"]):
        st.probe("untagged_word_with_gf_split")
    fmts = [sc["files"][r["file"]]["fmt"] for r in sc["readers"]]
    if len(fmts) != len(set(fmts)) and st.d["faults"].get("interleave"):
        st.probe("two_readers_same_format_interleaved")
    for j, r in enumerate(sc["readers"]):
        f = sc["files"][r["file"]]
        recs = obs["sessions"].get("r%d" % j, [])
        if f.get("damage"):
            viols.extend(judge_damaged(f, recs, st))
            continue
        if "opts" in r:
            st.probe("second_reader_of_a_file_with_other_options")
        viols.extend(judge_clean(f, recs, st, r.get("opts")))
    shape = (sc["mode"], tuple(sorted((f["fmt"], f["codec"], "+".join(sorted(f["opts"])), f["enc"],
                                       f["gz"], model.shape_class(f["tb"]),
                                       str((f.get("damage") or {}).get("how")))
                                      for f in sc["files"])), len(sc["readers"]))
    nontrivial = any(len(f["tb"]) >= 2 for f in sc["files"]) or \
        (len(sc["readers"]) >= 2 and st.d["faults"].get("interleave")) or \
        st.d["faults"].get("damage")
    sample = {"mode": sc["mode"], "files": [
        {"fmt": f["fmt"], "codec": f["codec"], "enc": f["enc"], "gz": f["gz"],
         "opts": f["opts"], "sentences": cm.tb_summary(f["tb"]), "damage": f.get("damage")}
        for f in sc["files"]], "readers": len(sc["readers"]),
        "schedule": sc.get("schedule", [])[:12]}
    return {"violations": viols, "stats": st.done(repr(shape), nontrivial, sample)}


def judge_clean(f, recs, st, ropts=None):
    fmt, codec, opts = f["fmt"], f["codec"], (f["opts"] if ropts is None else ropts)
    osig = optsig(opts)
    exp = expected_trees(f, opts)
    viols = []
    if len(exp) >= 2:
        st.probe("file_with_2plus_sentences")
    if len(exp) >= 100:
        st.probe("long_file_crossing_buffer_boundaries")
    if f["enc"] == "utf-16":
        st.probe("utf16_source")
    if "gf_split" in opts:
        st.probe("gf_split_used")
    if "replace_parens" in opts:
        st.probe("replace_parens_used")
    for s in f["tb"]:
        if any(model.gap_degree_node(c) >= 2 for c in model.constituents(s["root"])):
            st.probe("node_with_2plus_gaps")
        if len(s["root"][2]) == 1:
            st.probe("unary_root")
        if any(t[1] == "EMPTY" for t in s["tokens"]) and "brackets_emptypos" in opts:
            st.probe("emptypos_token")
    trees = []
    for rec in recs:
        if rec["op"] == "reader" and "exc" in rec:
            viols.append(cm.viol("C01/reader-raised/%s/%s/%s" % (fmt, osig, rec["exc"]),
                                 msg=rec.get("msg"), at="reader()"))
            return viols
        if rec["op"] != "next":
            continue
        if "quiet" in opts and rec.get("out"):
            viols.append(cm.viol("C01/quiet-prints/%s" % fmt, out=rec["out"][:100]))
        if "exc" in rec:
            viols.append(cm.viol("C01/reader-raised/%s/%s/%s" % (fmt, osig, rec["exc"]),
                                 msg=rec.get("msg"), after_trees=len(trees)))
            return viols
        if rec["ok"] == "STOP":
            break
        trees.append(rec["ok"])
    st.check("trees_compared", len(trees))
    for i, d in enumerate(trees):
        probs = treeview.wellformed(d)
        if probs:
            viols.append(cm.viol("C01/ill-formed-tree/%s/%s" % (fmt, probs[0]),
                                 sentence=i, problems=probs))
            return viols
    if len(trees) != len(exp):
        viols.append(cm.viol("C01/tree-count/%s/%s" % (fmt, osig), expected=len(exp),
                             got=len(trees)))
        return viols
    for i, (e, d) in enumerate(zip(exp, trees)):
        got = treeview.to_sentence(d)
        diff = compare(e, got, fmt, codec, opts)
        if diff:
            viols.append(cm.viol("C01/decode-mismatch/%s/%s/%s"
                                 % (fmt, optsig(opts, diff[0]), diff[0]),
                                 sentence=i, of=len(exp), diff=diff[1]))
            return viols
    return viols


# ---------------------------------------------------------------------------------- damage
WS_CHARS = " \t\n\r\x0b\x0c"


def lex(text):
    """Lexemes of the bracket language: ('L'|'R'|'W'|'T', string)."""
    out = []
    i, n = 0, len(text)
    while i < n:
        ch = text[i]
        if ch == "(":
            out.append(("L", ch))
            i += 1
        elif ch == ")":
            out.append(("R", ch))
            i += 1
        else:
            j = i
            if ch in WS_CHARS:
                while j < n and text[j] in WS_CHARS:
                    j += 1
                out.append(("W", text[i:j]))
            else:
                while j < n and text[j] not in WS_CHARS and text[j] not in "()":
                    j += 1
                out.append(("T", text[i:j]))
            i = j
    return out


class Ill(Exception):
    pass


def recognise(text, emptypos=False):
    """Independent recogniser of the bracket-group language (DESIGN.md Appendix A).
    Returns a list of ('tree', sentence) | ('ill', reason) | ('unspecified', why); the list
    ends at the first ill-formed or unspecified group."""
    toks = lex(text)
    pos = [0]
    n = len(toks)

    def peek():
        return toks[pos[0]][0] if pos[0] < n else "EOF"

    def take():
        t = toks[pos[0]]
        pos[0] += 1
        return t

    def skipw():
        if peek() == "W":
            pos[0] += 1
            return True
        return False

    def after(label, words):
        k = peek()
        if k == "W":
            take()
            k = peek()
            if k == "T":
                word = take()[1]
                skipw()
                k = peek()
                if k == "R":
                    take()
                    words.append([word, label, None, None, None])
                    return len(words)
                if k == "EOF":
                    raise Ill("eof-in-group")
                raise Ill("bracket-or-token-after-word")
            if k == "L":
                return [label, None, children(words)]
            if k == "R":
                raise Ill("label-without-content")
            raise Ill("eof-in-group")
        if k == "L":
            return [label, None, children(words)]
        if k == "R":
            if emptypos:
                take()
                words.append([label, "EMPTY", None, None, None])
                return len(words)
            raise Ill("label-without-content")
        raise Ill("eof-in-group")

    def children(words):
        kids = []
        while True:
            skipw()
            k = peek()
            if k == "L":
                kids.append(node(words))
            elif k == "R":
                take()
                return kids
            elif k == "T":
                raise Ill("token-after-closed-child")
            else:
                raise Ill("eof-in-group")

    def node(words):
        take()                        # L
        skipw()
        k = peek()
        if k == "T":
            return after(take()[1], words)
        if k == "EOF":
            raise Ill("eof-in-group")
        raise Ill("bracket-where-label-expected")

    out = []
    while pos[0] < n:
        if peek() != "L":
            take()                    # ignorable between groups
            continue
        words = []
        try:
            take()
            skipw()
            k = peek()
            if k == "T":
                root = after(take()[1], words)
            elif k == "L":
                root = ["VROOT", None, children(words)]
            elif k == "R":
                raise Ill("empty-group")
            else:
                raise Ill("eof-in-group")
        except Ill as e:
            out.append(("ill", str(e)))
            return out
        if isinstance(root, int):
            out.append(("unspecified", "top-level-preterminal"))
            return out
        out.append(("tree", {"sid": None, "tokens": words, "root": model.sort_children(root)}))
    return out


def decodable_prefix(data, enc):
    """(text, complete) - the longest prefix of data that the incremental decoder of enc
    (the one the text layer uses) accepts."""
    import codecs
    try:
        return codecs.getincrementaldecoder(enc)().decode(data, True), True
    except UnicodeError:
        pass
    dec = codecs.getincrementaldecoder(enc)()
    out = []
    for i in range(len(data)):
        try:
            out.append(dec.decode(data[i:i + 1]))
        except UnicodeError:
            break
    return "".join(out), False


def judge_damaged(f, recs, st):
    fmt, opts = f["fmt"], f["opts"]
    st.fault("damage_" + f["damage"]["how"])
    st.fault("damage")
    data = cm.render_file(f)
    clean = cm.render_file({k: v for k, v in f.items() if k != "damage"})
    viols = []
    if data == clean:
        return judge_clean(f, recs, st)
    text, complete = decodable_prefix(data, f["enc"])
    text = text.replace("\r\n", "\n").replace("\r", "\n")     # universal newlines, as read
    # observed
    trees = []
    raised = None
    finished = False
    for rec in recs:
        if rec["op"] == "reader" and "exc" in rec:
            raised = rec["exc"]
            break
        if rec["op"] != "next":
            continue
        if "exc" in rec:
            raised = rec["exc"]
            break
        if rec["ok"] == "STOP":
            finished = True
            break
        trees.append(rec["ok"])
    if raised:
        st.probe("reader_rejected_damaged_file")
    # expected
    if fmt == "discobrackets":
        lines = text.split("\n")
        partial = lines[-1]
        whole = "\n".join(lines[:-1]) + ("\n" if len(lines) > 1 else "")
        try:
            exp = rc.dec_brackets(whole, disco=True)
        except rc.DecodeError:
            st.probe("damage_not_judged")
            return viols
        items = [("tree", s) for s in exp]
        if not complete:
            items.append(("undecodable", ""))
        elif partial.strip() == "":
            pass
        elif "\t" not in partial:
            items.append(("ill", "eof-in-group"))
            st.probe("damage_inside_group")
        else:
            st.probe("damage_not_judged")
            items.append(("unspecified", "sentence part cut"))
    else:
        items = recognise(text, "brackets_emptypos" in opts)
        if not complete and (not items or items[-1][0] == "tree"):
            items.append(("undecodable", ""))
        elif not complete and items[-1][0] == "ill" and items[-1][1] == "eof-in-group":
            items[-1] = ("undecodable", "")
    kinds = [k for k, _ in items]
    if "ill" in kinds:
        st.probe("damage_inside_group")
    elif kinds and all(k == "tree" for k in kinds):
        st.probe("damaged_file_still_wellformed")
        if len(kinds) != len(f["tb"]):
            st.probe("damage_between_groups")
    firstid = opts.get("brackets_firstid", 1)
    st.check("damaged_files_judged")
    for i, (kind, val) in enumerate(items):
        if kind == "tree":
            if i >= len(trees):
                if raised and not complete:
                    # the file is not decodable as a whole: the text layer decodes in chunks,
                    # so the error may surface before earlier, intact groups were delivered
                    return viols
                if raised and any(k in ("ill", "undecodable", "unspecified") for k in kinds[i + 1:]):
                    # the file contains an ill-formed group further on: it is not a
                    # well-formed file, and nothing obliges a reader to deliver the groups
                    # in front of the bad one before it rejects (it may parse ahead)
                    st.probe("rejected_before_delivering_earlier_groups")
                    return viols
                viols.append(cm.viol("C01/damaged/%s/well-formed-group-lost" % fmt,
                                     group=i, yielded=len(trees), raised=raised,
                                     damage=f["damage"]))
                return viols
            probs = treeview.wellformed(trees[i])
            if probs:
                viols.append(cm.viol("C01/damaged/%s/ill-formed-tree/%s" % (fmt, probs[0]),
                                     group=i, damage=f["damage"]))
                return viols
            got = treeview.to_sentence(trees[i])
            exp = model.clone(val)
            exp["sid"] = firstid + i
            exp["root"][1] = None
            if "replace_parens" in opts:
                for t in exp["tokens"]:
                    t[0], t[1] = rc.map_parens(t[0]), rc.map_parens(t[1])
                for c in model.constituents(exp["root"]):
                    c[0] = rc.map_parens(c[0])
            if "gf_split" in opts:
                return viols
            diff = compare(exp, got, fmt, fmt, {})
            if diff:
                viols.append(cm.viol("C01/damaged/%s/decoded-into-other-tree/%s" % (fmt, diff[0]),
                                     group=i, diff=diff[1], damage=f["damage"]))
                return viols
        elif kind == "unspecified":
            return viols
        elif kind in ("ill", "undecodable"):
            if len(trees) > i:
                viols.append(cm.viol("C01/damaged/%s/ill-formed-group-decoded/%s"
                                     % (fmt, val or kind), group=i, yielded=len(trees),
                                     damage=f["damage"]))
            elif not raised:
                viols.append(cm.viol("C01/damaged/%s/ill-formed-group-not-rejected/%s"
                                     % (fmt, val or kind), group=i, yielded=len(trees),
                                     finished=finished, damage=f["damage"]))
            return viols
    # every group well formed: exactly these trees, normal termination
    if raised:
        viols.append(cm.viol("C01/damaged/%s/well-formed-file-rejected/%s" % (fmt, raised),
                             groups=len(items), yielded=len(trees), damage=f["damage"]))
    elif len(trees) != len(items):
        viols.append(cm.viol("C01/damaged/%s/tree-count" % fmt, groups=len(items),
                             yielded=len(trees), damage=f["damage"]))
    return viols


# ---------------------------------------------------------------------------------- shrink
def shrink_candidates(sc):
    # drop readers / files
    if len(sc["readers"]) > 1:
        for i in range(len(sc["readers"])):
            c = model.clone(sc)
            del c["readers"][i]
            yield c
    used = set(r["file"] for r in sc["readers"])
    if len(used) < len(sc["files"]):
        c = model.clone(sc)
        keep = sorted(used)
        c["files"] = [c["files"][i] for i in keep]
        for r in c["readers"]:
            r["file"] = keep.index(r["file"])
        yield c
    if sc.get("schedule"):
        c = model.clone(sc)
        c["schedule"] = []
        yield c
    if sc.get("short_reads"):
        c = model.clone(sc)
        c["short_reads"] = False
        yield c
    for i, f in enumerate(sc["files"]):
        if f.get("gz"):
            c = model.clone(sc)
            c["files"][i]["gz"] = False
            c["files"][i]["path"] = f["path"][:-3]
            yield c
        if f["enc"] != "utf-8":
            c = model.clone(sc)
            c["files"][i]["enc"] = "utf-8"
            yield c
        for k in sorted(f["opts"]):
            if k in ("brackets_emptypos",):
                continue
            c = model.clone(sc)
            del c["files"][i]["opts"][k]
            yield c
        for tb in model.shrink_treebank(f["tb"]):
            if not tb:
                continue
            c = model.clone(sc)
            c["files"][i]["tb"] = tb
            yield c
        if f.get("layout") != 0:
            c = model.clone(sc)
            c["files"][i]["layout"] = 0
            yield c
