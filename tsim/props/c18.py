"""C18 - processing is sentence-local, deterministic and history-independent.

The flagship: every mechanism of the simulator is used.  A scenario has 1-4 sessions of every
kind (conversion pipelines step by step, CLI commands, grammar extraction + binarization +
output, analysis tasks, transition extraction, terminal-file edits, deliberately failing
calls) over private files, one seeded schedule, faults (short reads, injected I/O errors,
cancellation, failing calls) and a pair of hash seeds.

Oracles
  1 alone = combined      every session's observations in the interleaved / after-history
                          process equal those of the same session alone in a fresh process
  2 error isolation       a session hit by an injected I/O error either raises or equals its
                          fault-free self; all other sessions satisfy (1) exactly
  3 additivity            output(A+B) = output(A) ++ output(B); grammar/lexicon/statistics
                          (A+B) = sum; a permutation of the sentences permutes the outputs
  4 repeatability         the whole scenario under the second hash seed gives the same
                          observations (set-valued LoPar side files up to line order)
"""
import random

from .. import model, refgram
from .. import refcodec as rc
from . import common as cm
from . import sessions as sl
from . import c03, c16

ID = "C18"
RULE = ("five modes drawn per scenario: sessions (45 %: 1-4 sessions of 13 kinds - API pipelines and "
        "real CLI commands of all four subcommands, terminal-file edits, PTB trace deletion, "
        "deliberately failing calls - over private files under a seeded schedule random / "
        "round-robin / bursty / sequential = history, with faults K1/K4/K5/K6 read+write/K7/K9 "
        "and the hash-seed pair K3), additivity+permutation on treebanks A, B (35 %, a third "
        "with the second file damaged and concatenated at byte level), reread (10 %: source file "
        "rewritten between two reads), directory (10 %: one command over 2-4 files vs each file "
        "alone). Distinct = distinct (mode, session kinds with formats and options, fault kinds, "
        "schedule style). Non-trivial = >= 2 sessions, or a fired fault, or one of the other "
        "modes.")
ASSUMPTIONS = [
    "an observation is ok(value) or raised(exception type); messages, node ids and temp-file "
    "names are not observations",
    "oracle 1 is self-relative (same code alone vs in company): it cannot fire on a "
    "refactoring, only on a real dependence on history or schedule",
    "additivity of binarized grammars is only required for Markov modes (deterministic "
    "binarization labels are numbered in processing order by design)",
]


def budget(tier):
    return 4500 if tier == "quick" else 250000


# ---------------------------------------------------------------------------------- generate
def generate(seed, tier):
    rng = random.Random(seed)
    r0 = rng.random()
    if r0 < 0.35:
        return gen_additivity(rng, tier)
    if r0 < 0.45:
        return gen_reread(rng, tier)
    if r0 < 0.55:
        return gen_directory(rng, tier)
    if r0 < 0.63:
        return gen_reuse(rng, tier)
    if r0 < 0.70:
        return gen_cli_vs_api(rng, tier)
    n = rng.choice([1, 2, 2, 3, 3, 4])
    if rng.random() < 0.25:
        # the same work twice in one process (only the directory differs): state a call leaves
        # behind in the module is most likely to reach a later call of the same kind
        n = rng.choice([2, 2, 3])
        sub = rng.randrange(1 << 40)
        sess = [sl.gen_session(random.Random(sub), tier, i) for i in range(n)]
    elif rng.random() < 0.04:
        # two (three) conversions of gzip sources that do not fit an I/O buffer, the files
        # having the same name in different directories, advanced alternately
        n = rng.choice([2, 2, 3])
        sess = []
        for i in range(n):
            base = "/sim/w/s%d" % i
            s_ = sl.gen_convert(rng, tier, base, cli=False, big=(i < 2))
            s_["base"] = base
            s_.setdefault("on_error", "abort")
            sess.append(s_)
    else:
        sess = [sl.gen_session(rng, tier, i) for i in range(n)]
    faults = []
    # K7 cancellation: abandon a reader half-way
    for s in sess:
        if rng.random() < 0.12:
            for op in s["ops"]:
                if op[0] == "loop" and len(op) == 4:
                    op.append(rng.randint(0, 2))
                    s["ops"].insert(s["ops"].index(op) + 1, ["close", op[1]])
                    s["cancelled"] = True
                    break
    # K6 injected I/O error inside a live reader of one session
    if rng.random() < 0.25:
        cands = [(i, p) for i, s in enumerate(sess) for p in sorted(s["files"])
                 if "tb" in s["files"][p]]
        if cands:
            i, p = rng.choice(cands)
            faults.append({"kind": "io_error", "op": "read", "path": p,
                           "nth": rng.randint(1, 12), "session": i})
    # K6 on the write side: the n-th raw write to a session's destination fails
    if rng.random() < 0.15:
        cands = [(i, s["meta"]["dest"]) for i, s in enumerate(sess)
                 if s["kind"] in ("convert", "cli_transform") and s["meta"].get("dest")]
        if cands:
            i, p = rng.choice(cands)
            faults.append({"kind": "io_error", "op": "write", "path": p,
                           "nth": rng.randint(1, 3), "session": i})
    nsteps = 60
    return {"mode": "sessions", "sessions": sess, "faults": faults,
            "schedule": cm.gen_schedule(rng, n, nsteps), "io_seed": rng.randrange(1 << 30),
            "short_reads": rng.random() < 0.8, "listdir_seed": rng.randrange(1 << 30),
            "hashseed2": rng.random() < (0.8 if any(
                s["kind"] == "ptb" or any(f.get("parens") for f in s["files"].values())
                for s in sess) else 0.3)}


def gen_directory(rng, tier):
    """One command over a directory of files vs the same command over each file alone: what is
    written for a file depends only on that file (and the parameter files)."""
    fmt = rng.choice(["export", "brackets", "discobrackets", "tigerxml"])
    cont = fmt == "brackets"
    n = rng.choice([2, 3, 4])
    files = []
    for j in range(n):
        tb = sl.gen_tb(rng, tier, continuous=cont, nsent=rng.choice([1, 2, 3, 5]))
        gz = fmt != "tigerxml" and rng.random() < 0.4
        files.append({"tb": tb, "gz": gz, "layout": rng.randrange(1 << 30)})
    trans = [list(x) for x in rng.choice(sl.TRANS_PIPELINES[:10])]
    d = {"mode": "directory", "fmt": fmt, "files": files, "trans": trans,
         "dest_fmt": rng.choice(["export", "terminals", "discobrackets", "tigerxml"]),
         "io_seed": rng.randrange(1 << 30), "listdir_seed": rng.randrange(1 << 30),
         "terms": None}
    if rng.random() < 0.4:
        which = rng.choice(["insert_terminals", "substitute_terminals"])
        d["terms"] = {"op": which,
                      "raw": sl.tfile(rng, [s for f in files for s in f["tb"]][:6],
                                      which == "insert_terminals")["raw"]}
    return d


ORDER_SENSITIVE = [
    [["filter_by_length", {"filteroperator": "lt", "filtervalue": 3}], ["punctuation_delete", {}]],
    [["punctuation_delete", {}], ["filter_by_length", {"filteroperator": "lt", "filtervalue": 3}]],
    [["negra_mark_heads", {}], ["root_attach", {}], ["negra_mark_heads", {}], ["boyd_split", {}],
     ["raising", {}]],
    [["punctuation_root", {}], ["root_attach", {}]],
    [["add_topnode", {}], ["root_attach", {}]],
    [["collapse_unary_chains", {}], ["add_topnode", {}]],
    [["ptb_delete_traces", {}], ["filter_by_length", {"filteroperator": "gt", "filtervalue": 4}]],
]


def gen_cli_vs_api(rng, tier):
    """The `transform` command and the same pipeline through the library functions must write
    the same file: the command line adds nothing but argument parsing."""
    fmt = rng.choice(["export", "tigerxml", "discobrackets", "brackets"])
    tb = sl.gen_tb(rng, tier, continuous=(fmt == "brackets"), nsent=rng.choice([2, 3, 5]))
    for s in tb:
        for t in s["tokens"]:
            if rng.random() < 0.15:
                t[0] = rng.choice([",", ".", "``", "''"])
    trans = [list(x) for x in rng.choice(ORDER_SENSITIVE + sl.TRANS_PIPELINES[:11])]
    return {"mode": "cli_vs_api", "fmt": fmt, "tb": tb, "trans": trans,
            "dest_fmt": rng.choice(["export", "terminals", "discobrackets", "tigerxml"]),
            "layout": rng.randrange(1 << 30), "io_seed": rng.randrange(1 << 30)}


def gen_reuse(rng, tier):
    """A tree object is handed to a writer (or to extraction / analysis) and then used again:
    what the second call produces must be what it produces for that sentence in a fresh
    process, where the first call never happened."""
    w1 = rng.choice(["export", "tigerxml", "discobrackets", "brackets", "terminals",
                     "extract", "gapdegree"])
    cont = w1 == "brackets"
    tb = sl.gen_tb(rng, tier, continuous=cont, nsent=rng.choice([1, 2]))
    k = model.swarm_knobs(rng, tier, allow=("ascii", "xml", "paren", "latin1"), continuous=cont)
    for s in tb:
        for t in s["tokens"]:
            if rng.random() < 0.2:
                t[0] = rng.choice(model.W_XML + model.W_PAREN[:8])
    second = rng.choice(["export", "tigerxml", "discobrackets", "terminals", "extract",
                         "gapdegree", "trans+export", "trans+export", "trans+export",
                         "disco_order", "trans+extract", "trans+gapdegree", "trans+brackets"])
    if w1 in ("extract", "gapdegree") and rng.random() < 0.5:
        # what the first consumer may have left on the nodes concerns yields and fan-outs:
        # change them in place and let a yield-dependent consumer look again
        second = rng.choice(["trans+extract", "trans+extract", "trans+gapdegree",
                             "trans+brackets"])
    trans2 = rng.choice([["root_attach"], ["negra_mark_heads", "binarize"],
                         ["root_attach", "negra_mark_heads", "boyd_split", "raising"],
                         ["punctuation_delete"], ["add_topnode"], ["punctuation_root"],
                         ["root_attach", "negra_mark_heads", "boyd_split"]])
    fmt2 = rng.choice(["export", "export", "tigerxml", "discobrackets"])
    failing = w1 in ("export", "tigerxml", "discobrackets", "terminals") and rng.random() < 0.3
    if failing:
        # the first write goes to an ASCII stream and meets a word it cannot encode
        tb[0]["tokens"][-1][0] = rng.choice(["Käse", "Straße"])
    return {"mode": "reuse", "tb": tb, "first": w1, "second": second, "first_fails": failing,
            "trans2": trans2, "fmt2": fmt2,
            "first_opts": {"export_four": True} if w1 == "export" and rng.random() < 0.5 else {},
            "shuffle": rng.randrange(1 << 30)}


def gen_reread(rng, tier):
    """The content of a source file changes between two reads in one process: what is produced
    the second time depends only on the new content (K5 with an environment step)."""
    fmt = rng.choice(["export", "brackets", "discobrackets", "tigerxml", "export", "brackets"])
    cont = fmt == "brackets"
    tb1 = sl.gen_tb(rng, tier, continuous=cont, nsent=rng.choice([1, 2, 3, 5]))
    tb2 = sl.gen_tb(rng, tier, continuous=cont, nsent=rng.choice([1, 2, 3]))
    gz = fmt in ("export", "brackets", "discobrackets") and rng.random() < 0.5
    return {"mode": "reread", "fmt": fmt, "tb1": tb1, "tb2": tb2, "gz": gz,
            "cli": rng.random() < 0.4, "dest_fmt": rng.choice(["export", "terminals",
                                                                "discobrackets"]),
            "layout": rng.randrange(1 << 30), "io_seed": rng.randrange(1 << 30)}


def gen_additivity(rng, tier):
    kind = rng.choice(["convert", "convert", "cli_transform", "grammar", "grammar",
                       "transitions", "analysis"])
    fmt = rng.choice(["export", "tigerxml", "discobrackets", "brackets"])
    if kind == "transitions":
        fmt = rng.choice(["brackets", "export"])
    cont = fmt == "brackets" or kind == "transitions"
    A = sl.gen_tb(rng, tier, continuous=cont, nsent=rng.choice([1, 2, 3]))
    B = sl.gen_tb(rng, tier, continuous=cont, nsent=rng.choice([1, 2, 3]))
    if kind == "grammar" and not cont and rng.random() < 0.4:
        # B repeats sentences of A with two tokens moved: the same rules in the same contexts
        # with other linearizations (what is kept per rule must not depend on which came first)
        B = [g for g in (model.gap_twin(rng, x) for x in A) if g is not None] or B
    for i, s in enumerate(B):
        s["sid"] = len(A) + 1 + i
    d = {"mode": "additivity", "kind": kind, "fmt": fmt, "A": A, "B": B,
         "layout": rng.randrange(1 << 30), "io_seed": rng.randrange(1 << 30),
         "perm_seed": rng.randrange(1 << 30)}
    if kind in ("convert", "cli_transform"):
        d["dest_fmt"] = rng.choice(["export", "tigerxml", "discobrackets", "brackets",
                                    "terminals"])
        d["trans"] = [list(x) for x in rng.choice(sl.TRANS_PIPELINES[:10])]
        d["dopts"] = {"brackets_skipdisco": True} if d["dest_fmt"] == "brackets" else {}
    if kind == "grammar":
        d["gmode"] = None if rng.random() < 0.4 else \
            {"reordering": rng.choice(["none", "optimal"]),
             "markov": {"v": rng.randint(0, 2), "h": rng.randint(0, 2)}}
    if kind == "transitions":
        d["transtype"] = rng.choice(["topdown", "inorder"])
    if kind == "analysis":
        d["task"] = rng.choice(["GapDegree", "PosTags", "SentenceCount"])
    if fmt in ("export", "brackets", "discobrackets") and rng.random() < 0.35:
        # K8 on the second treebank: the files are frameless, so file(A+B) = file(A) + file(B)
        # byte for byte; what is produced for the (damaged) sentences of B must be the same
        # alone and after A
        d["damageB"] = {"how": rng.choice(["drop_word", "truncate", "stray_text", "drop_word",
                                           "none", "none"]),
                        "seed": rng.randrange(1 << 30)}
        if fmt == "export":
            d["codecs"] = [rng.choice(["export3", "export4"]), rng.choice(["export3", "export4"])]
    return d


# ---------------------------------------------------------------------------------- execute
def render_files(sessions):
    files = {}
    for s in sessions:
        for p, f in s["files"].items():
            files[p] = cm.render_file(f)
    return files


def observation(obs, sid, base):
    """What a session produced: outcome classes, captured stdout, digests of values, files."""
    recs = []
    for r in obs["sessions"].get(sid, []):
        if "exc" in r:
            recs.append((r["op"], "raised", r["exc"], r.get("out", "")))
        else:
            recs.append((r["op"], "ok", r["ok"], r.get("out", "")))
    files = dict((p, d) for p, d in obs["files"].items() if p.startswith(base + "/"))
    return recs, files


SETFILES = (".start", ".oc", ".OC")


def norm_files(files):
    out = {}
    for p, d in files.items():
        if p.endswith(SETFILES):
            out[p] = b"\n".join(sorted(d.split(b"\n")))
        else:
            out[p] = d
    return out


def diff_obs(a, b, setfiles=False):
    """None or (where, description) for two (recs, files) observations."""
    ra, fa = a
    rb, fb = b
    for i, (x, y) in enumerate(zip(ra, rb)):
        if x != y:
            what = "outcome" if x[1] != y[1] or (x[1] == "raised" and x[2] != y[2]) else \
                ("value" if x[2] != y[2] else "stdout")
            return "step=%s/%s" % (x[0], what), "step %d: %s vs %s" % (
                i, repr(x)[:160], repr(y)[:160])
    if len(ra) != len(rb):
        return "step-count", "%d vs %d steps" % (len(ra), len(rb))
    if setfiles:
        fa, fb = norm_files(fa), norm_files(fb)
    for p in sorted(set(fa) | set(fb)):
        if fa.get(p) != fb.get(p):
            ext = p.rsplit(".", 1)[-1] if "." in p.rsplit("/", 1)[-1] else "noext"
            return "file=.%s" % ext, "file %s differs (%s vs %s bytes)" % (
                p, len(fa.get(p) or b"") if p in fa else None,
                len(fb.get(p) or b"") if p in fb else None)
    return None


def execute_reread(sc, sim):
    st = cm.Stats()
    st.declare("source_rewritten_between_reads", "gzip_source_opened")
    fmt = sc["fmt"]
    codec, ext = sl.SRC[fmt]
    path = "/sim/w/r/in%s%s" % (ext, ".gz" if sc["gz"] else "")
    c1 = cm.render_file({"tb": sc["tb1"], "codec": codec, "layout": sc["layout"], "enc": "utf-8",
                         "gz": sc["gz"]})
    c2 = cm.render_file({"tb": sc["tb2"], "codec": codec, "layout": sc["layout"] + 1,
                         "enc": "utf-8", "gz": sc["gz"]})

    def phase(n):
        if sc["cli"]:
            return [["cli", ["transform", path, "/sim/w/r/out%d" % n, "--src-format", fmt,
                             "--dest-format", sc["dest_fmt"], "--src-opts", "quiet"]]]
        return [["reader", "r%d" % n, fmt, path, "utf-8", {"quiet": True}],
                ["loop", "r%d" % n, "t", []]]
    ops = phase(1) + [["put", path, "second"]] + phase(1)
    both = sim.run({"files": {path: c1}, "blobs": {"second": c2}, "dirs": ["/sim/w/r"],
                    "io_seed": sc["io_seed"], "sessions": [{"id": "s", "ops": ops}]})
    st.add_obs(both)
    fresh = sim.run({"files": {path: c2}, "dirs": ["/sim/w/r"], "io_seed": sc["io_seed"],
                     "sessions": [{"id": "s", "ops": phase(1)}]})
    st.add_obs(fresh)
    st.probe("source_rewritten_between_reads")
    st.fault("history")
    viols = []
    ra = both["sessions"]["s"]
    cut = [i for i, r in enumerate(ra) if r["op"] == "put"]
    if cut:
        second = ra[cut[0] + 1:]
        a = ([(r["op"], "raised", r["exc"]) if "exc" in r else (r["op"], "ok", r["ok"])
              for r in second],
             dict((p, d) for p, d in both["files"].items() if p == "/sim/w/r/out1"))
        b = ([(r["op"], "raised", r["exc"]) if "exc" in r else (r["op"], "ok", r["ok"])
              for r in fresh["sessions"]["s"]],
             dict((p, d) for p, d in fresh["files"].items() if p == "/sim/w/r/out1"))
        # node ids in dumps are per-session counters: compare trees by content
        a = (strip_ids(a[0]), a[1])
        b = (strip_ids(b[0]), b[1])
        st.check("reread_pairs")
        if a != b:
            viols.append(cm.viol("C18/reread/%s%s/stale-or-mixed-content"
                                 % (fmt, "/gz" if sc["gz"] else ""), cli=sc["cli"],
                                 second_read=len(a[0]), fresh=len(b[0])))
    shape = ("reread", fmt, sc["gz"], sc["cli"], sc["dest_fmt"] if sc["cli"] else None,
             len(sc["tb1"]), len(sc["tb2"]))
    sample = {"mode": "reread", "fmt": fmt, "gz": sc["gz"], "cli": sc["cli"],
              "first": cm.tb_summary(sc["tb1"]), "second": cm.tb_summary(sc["tb2"])}
    return {"violations": viols, "stats": st.done(repr(shape), True, sample)}


def execute_directory(sc, sim):
    st = cm.Stats()
    st.declare("directory_vs_single_file_runs", "gzip_source_opened", "terminal_file_in_directory_run")
    fmt = sc["fmt"]
    codec, ext = sl.SRC[fmt]
    names = []
    blobs = {}
    for j, f in enumerate(sc["files"]):
        name = "f%d%s%s" % (j, ext, ".gz" if f["gz"] else "")
        names.append(name)
        blobs[name] = cm.render_file({"tb": f["tb"], "codec": codec, "layout": f["layout"],
                                      "enc": "utf-8", "gz": f["gz"]})
    extra = {}
    trans = [t[0] for t in sc["trans"]]
    params = {}
    for t in sc["trans"]:
        params.update(t[1])
    if sc.get("terms"):
        extra["/sim/w/terms.txt"] = sc["terms"]["raw"].encode("utf-8")
        trans = [sc["terms"]["op"]] + trans
        params.update({"terminalfile": "/sim/w/terms.txt", "quiet": True})
        st.probe("terminal_file_in_directory_run")

    def argv(src, dest):
        a = ["transform", src, dest, "--src-format", fmt, "--dest-format", sc["dest_fmt"],
             "--src-opts", "quiet"]
        if trans:
            a += ["--trans"] + trans
        if params:
            a += ["--params"] + ["%s:%s" % (k, v) if v is not True else k
                                 for k, v in sorted(params.items())]
        return a
    files = dict(("/sim/w/d/" + n, b) for n, b in blobs.items())
    files.update(extra)
    whole = sim.run({"files": files, "dirs": ["/sim/w/d"], "io_seed": sc["io_seed"],
                     "listdir_seed": sc["listdir_seed"],
                     "sessions": [{"id": "c", "ops": [["cli", argv("/sim/w/d", "/sim/w/x")]]}]})
    st.add_obs(whole)
    st.probe("directory_vs_single_file_runs")
    st.fault("history")
    viols = []
    wrec = whole["sessions"]["c"][0]
    wfailed = "exc" in wrec or wrec["ok"].get("exit") != 0
    any_single_failed = False
    singles = {}
    for n in names:
        fl = {"/sim/w/d/" + n: blobs[n]}
        fl.update(extra)
        one = sim.run({"files": fl, "dirs": ["/sim/w/d"], "io_seed": sc["io_seed"],
                       "sessions": [{"id": "c", "ops": [["cli", argv("/sim/w/d/" + n,
                                                                   "/sim/w/d/" + n + ".dest")]]}]})
        st.add_obs(one)
        r = one["sessions"]["c"][0]
        if "exc" in r or r["ok"].get("exit") != 0:
            any_single_failed = True
        singles[n] = one["files"].get("/sim/w/d/" + n + ".dest")
    st.check("directory_runs_judged")
    if wfailed != any_single_failed:
        viols.append(cm.viol("C18/directory/failure-not-additive", whole_failed=wfailed,
                             some_file_failed=any_single_failed, fmt=fmt, trans=trans))
    elif not wfailed:
        for n in names:
            got = whole["files"].get("/sim/w/d/" + n + ".dest")
            if got != singles[n]:
                viols.append(cm.viol("C18/directory/%s%s/output-depends-on-other-files"
                                     % (fmt, "/gz" if n.endswith(".gz") else ""),
                                     file=n, trans=trans, dest_fmt=sc["dest_fmt"],
                                     sizes=[len(got or b""), len(singles[n] or b"")]))
                break
    shape = ("directory", fmt, sc["dest_fmt"], tuple(trans), tuple(f["gz"] for f in sc["files"]),
             bool(sc.get("terms")))
    sample = {"mode": "directory", "fmt": fmt, "dest_fmt": sc["dest_fmt"], "trans": trans,
              "files": [{"gz": f["gz"], "sentences": len(f["tb"])} for f in sc["files"]]}
    return {"violations": viols, "stats": st.done(repr(shape), True, sample)}


def execute_cli_vs_api(sc, sim):
    st = cm.Stats()
    st.declare("command_line_vs_library_pipeline", "order_sensitive_pipeline")
    fmt, dfmt = sc["fmt"], sc["dest_fmt"]
    codec, ext = sl.SRC[fmt]
    path = "/sim/w/c/in" + ext
    data = cm.render_file({"tb": sc["tb"], "codec": codec, "layout": sc["layout"], "enc": "utf-8"})
    trans = sc["trans"]
    params = {}
    for t in trans:
        params.update(t[1])
    argv = ["transform", path, "/sim/w/c/out", "--src-format", fmt, "--dest-format", dfmt,
            "--src-opts", "quiet"]
    if trans:
        argv += ["--trans"] + [t[0] for t in trans]
    if params:
        argv += ["--params"] + ["%s:%s" % (k, v) if v is not True else k
                                for k, v in sorted(params.items())]
    body = [["trans", "t", t[0], params] for t in trans] + [["write", dfmt, "t", "o", {}]]
    api = [["reader", "r", fmt, path, "utf-8", {"quiet": True}], ["wopen", "o", "/sim/w/c/out",
                                                                  "utf-8"],
           ["wbegin", dfmt, "o", {}], ["loop", "r", "t", body], ["wend", dfmt, "o", {}],
           ["wclose", "o"]]
    base = {"files": {path: data}, "dirs": ["/sim/w/c"], "io_seed": sc["io_seed"]}
    a = sim.run(dict(base, sessions=[{"id": "s", "ops": [["cli", argv]]}]))
    b = sim.run(dict(base, sessions=[{"id": "s", "ops": api}]))
    st.add_obs(a)
    st.add_obs(b)
    st.probe("command_line_vs_library_pipeline")
    if len(trans) >= 2:
        st.probe("order_sensitive_pipeline")
    ra = a["sessions"]["s"][0]
    cli_failed = "exc" in ra or ra["ok"].get("exit") != 0
    api_failed = any("exc" in r for r in b["sessions"]["s"])
    viols = []
    st.check("cli_vs_api_pairs")
    tag = "+".join(t[0] for t in trans) or "none"
    if cli_failed != api_failed:
        viols.append(cm.viol("C18/cli-vs-api/outcome-differs", trans=tag, cli_failed=cli_failed,
                             api_failed=api_failed, msg=ra.get("msg")))
    elif not cli_failed and a["files"].get("/sim/w/c/out") != b["files"].get("/sim/w/c/out"):
        viols.append(cm.viol("C18/cli-vs-api/output-differs", trans=tag, dest_fmt=dfmt,
                             sizes=[len(a["files"].get("/sim/w/c/out") or b""),
                                    len(b["files"].get("/sim/w/c/out") or b"")]))
    shape = ("cli_vs_api", fmt, dfmt, tag)
    sample = {"mode": "cli_vs_api", "fmt": fmt, "dest_fmt": dfmt, "trans": tag,
              "sentences": cm.tb_summary(sc["tb"])}
    return {"violations": viols, "stats": st.done(repr(shape), True, sample)}


def reuse_ops(sc, with_first):
    ops = []
    for j, sent in enumerate(sc["tb"]):
        ops.append(["build", "t", sent, sc["shuffle"] + j])
        if with_first:
            f = sc["first"]
            if f == "extract":
                ops += [["gnew", "g0"], ["extract", "t", "g0"]]
            elif f == "gapdegree":
                ops += [["task_new", "k0", "GapDegree"], ["task_run", "k0", "t"]]
            elif sc.get("first_fails"):
                ops += [["wopen", "a", "/sim/w/first%d.out" % j, "ascii"],
                        ["write", f, "t", "a", sc.get("first_opts", {})]]
            else:
                ops += [["sio", "a"], ["write", f, "t", "a", sc.get("first_opts", {})]]
        ops.append(["mark", "second"])
        x = sc["second"]
        if x == "extract":
            ops += [["gnew", "g"], ["extract", "t", "g"], ["gdump", "g"]]
        elif x == "gapdegree":
            ops += [["task_new", "k", "GapDegree"], ["task_run", "k", "t"], ["task_done", "k"]]
        elif x == "disco_order":
            ops += [["trans", "t", "negra_mark_heads", {}], ["trans", "t", "binarize", {}],
                    ["call", "disco_order", "t", "left"]]
        elif x == "trans+export":
            ops += [["trans", "t", name, {}] for name in sc.get("trans2", ["root_attach"])]
            ops += [["sio", "b"], ["write", sc.get("fmt2", "export"), "t", "b", {}], ["sval", "b"]]
        elif x in ("trans+extract", "trans+gapdegree", "trans+brackets"):
            # the tree is restructured in place, then something that depends on its yields
            # (vertical contexts, gap degrees, the bracket writer's refusal) looks at it again
            ops += [["trans", "t", name, {}] for name in sc.get("trans2", ["root_attach"])]
            if x == "trans+extract":
                ops += [["gnew", "g"], ["extract", "t", "g"], ["gdump", "g"]]
            elif x == "trans+gapdegree":
                ops += [["task_new", "k", "GapDegree"], ["task_run", "k", "t"],
                        ["task_done", "k"]]
            else:
                ops += [["sio", "b"], ["write", "brackets", "t", "b", {}], ["sval", "b"]]
        else:
            ops += [["sio", "b"], ["write", x, "t", "b", {}], ["sval", "b"]]
    return ops


def execute_reuse(sc, sim):
    st = cm.Stats()
    st.declare("object_reused_after_a_writer_or_consumer")
    a = sim.run({"sessions": [{"id": "s", "ops": reuse_ops(sc, True), "on_error": "continue"}]})
    b = sim.run({"sessions": [{"id": "s", "ops": reuse_ops(sc, False), "on_error": "continue"}]})
    st.add_obs(a)
    st.add_obs(b)
    st.probe("object_reused_after_a_writer_or_consumer")
    st.fault("history")

    def second_parts(obs):
        out, take = [], False
        for r in obs["sessions"]["s"]:
            if r["op"] == "mark":
                take = True
                continue
            if r["op"] == "build":
                take = False
                continue
            if take and r["op"] in ("sval", "gdump", "task_done", "write", "extract", "trans",
                                    "task_run", "call"):
                if "exc" in r:
                    out.append((r["op"], "raised", r["exc"]))
                elif r["op"] == "trans":
                    out.append((r["op"], "ok", None))
                else:
                    out.append((r["op"], "ok", r.get("ok"), r.get("out", "")))
        return out
    viols = []
    first_failed = any("exc" in r for r in a["sessions"]["s"]
                       if r["op"] in ("write", "extract", "task_run"))
    pa, pb = second_parts(a), second_parts(b)
    st.check("reuse_pairs")
    if pa != pb and not (first_failed and sc["first"] == "brackets"):
        where = next((x[0] for x, y in zip(pa, pb) if x != y), "length")
        viols.append(cm.viol("C18/reuse/after-%s/later-use-differs" % sc["first"], second=sc["second"],
                             step=where,
                             with_first=repr(pa)[:300], fresh=repr(pb)[:300]))
    shape = ("reuse", sc["first"], sc["second"], repr(sc.get("first_opts")))
    sample = {"mode": "reuse", "first": sc["first"], "second": sc["second"],
              "sentences": cm.tb_summary(sc["tb"])}
    return {"violations": viols, "stats": st.done(repr(shape), True, sample)}


def strip_ids(recs):
    from .. import treeview
    out = []
    for r in recs:
        if r[1] == "ok" and isinstance(r[2], dict) and "nodes" in r[2]:
            d = r[2]
            if treeview.wellformed(d):
                out.append((r[0], "ok", "ILL-FORMED"))
            else:
                sent = treeview.to_sentence(d)
                out.append((r[0], "ok", repr(model.canon(sent))))
        else:
            out.append(r)
    return out


def execute(sc, sim):
    if sc["mode"] == "additivity":
        return execute_additivity(sc, sim)
    if sc["mode"] == "reread":
        return execute_reread(sc, sim)
    if sc["mode"] == "directory":
        return execute_directory(sc, sim)
    if sc["mode"] == "reuse":
        return execute_reuse(sc, sim)
    if sc["mode"] == "cli_vs_api":
        return execute_cli_vs_api(sc, sim)
    st = cm.Stats()
    st.declare("three_plus_sessions_interleaved", "two_readers_same_format_alive",
               "history_length_3plus", "history_contains_failed_call", "cancellation_mid_file",
               "two_terminal_files_alternating", "markov_binarization_in_company",
               "lopar_start_under_two_hash_seeds", "io_error_fired_inside_live_reader",
               "second_hash_seed")
    viols = []
    sess = sc["sessions"]
    files = render_files(sess)
    dirs = sorted(set([s["base"] for s in sess] + [d for s in sess for d in s.get("dirs", [])]))
    faults = [dict(f) for f in sc.get("faults", [])]
    base = {"io_seed": sc["io_seed"], "short_reads": sc["short_reads"],
            "listdir_seed": sc["listdir_seed"], "dirs": dirs}

    def spec_for(idxs, with_faults=True):
        ss = [{"id": "s%d" % i, "ops": sess[i]["ops"], "on_error": sess[i].get("on_error",
                                                                               "abort")}
              for i in idxs]
        fl = dict((p, d) for p, d in files.items()
                  if any(p.startswith(sess[i]["base"] + "/") for i in idxs))
        return dict(base, files=fl, sessions=ss,
                    faults=[f for f in faults if with_faults and f["session"] in idxs],
                    schedule=sc["schedule"] if len(idxs) > 1 else [])

    allidx = list(range(len(sess)))
    combined = sim.run(spec_for(allidx))
    st.add_obs(combined)
    if combined.get("hang"):
        return fin(sc, st, [cm.viol("C18/hang/combined", kinds=[s["kind"] for s in sess])])
    # probes
    kinds = [s["kind"] for s in sess]
    if len(sess) >= 3 and st.d["faults"].get("interleave"):
        st.probe("three_plus_sessions_interleaved")
    if not sc["schedule"] and len(sess) >= 3:
        st.probe("history_length_3plus")
        st.fault("history")
    elif not sc["schedule"] and len(sess) >= 2:
        st.fault("history")
    if any(k.startswith("failing_") for k in kinds) and len(sess) >= 2:
        st.probe("history_contains_failed_call")
        st.fault("failed_call")
    if any(s.get("cancelled") for s in sess):
        st.probe("cancellation_mid_file")
        st.fault("cancel")
    if any(s["kind"] == "edits" and s["meta"].get("files", 0) >= 2 for s in sess):
        st.probe("two_terminal_files_alternating")
    if len(sess) >= 2 and any((s.get("meta", {}).get("mode") or {}).get("markov")
                              for s in sess):
        st.probe("markov_binarization_in_company")
    srcf = [s["meta"].get("src_fmt") for s in sess if s["meta"].get("src_fmt")
            and not s["kind"].startswith("cli")]
    if len(srcf) != len(set(srcf)) and st.d["faults"].get("interleave"):
        st.probe("two_readers_same_format_alive")
    if combined["stats"].get("io_error"):
        st.probe("io_error_fired_inside_live_reader")
    # ---- oracle 1 (+2): each session alone in a fresh process, same faults
    for i, s in enumerate(sess):
        alone = sim.run(spec_for([i]))
        st.add_obs(alone)
        st.check("alone_vs_combined_pairs")
        if alone.get("hang"):
            viols.append(cm.viol("C18/hang/alone/%s" % s["kind"]))
            break
        d = diff_obs(observation(alone, "s%d" % i, s["base"]),
                     observation(combined, "s%d" % i, s["base"]))
        if d:
            viols.append(cm.viol("C18/alone-vs-combined/%s/%s" % (s["kind"], d[0]),
                                 session=i, kinds=kinds, diff=d[1],
                                 schedule=sc["schedule"][:16]))
            break
        # oracle 2: the faulted session vs its fault-free self
        mine = [f for f in faults if f["session"] == i]
        if mine and alone["stats"].get("io_error"):
            clean = sim.run(spec_for([i], with_faults=False))
            st.add_obs(clean)
            st.check("faulted_vs_fault_free")
            oa = observation(alone, "s%d" % i, s["base"])
            oc = observation(clean, "s%d" % i, s["base"])
            raised = any(r[1] == "raised" for r in oa[0])
            clean_raised = any(r[1] == "raised" for r in oc[0])
            if not raised and not clean_raised and diff_obs(oa, oc):
                viols.append(cm.viol("C18/error-isolation/completed-with-different-data/%s"
                                     % s["kind"], session=i, fault=mine[0],
                                     diff=diff_obs(oa, oc)[1]))
                break
    # ---- oracle 4: second hash seed
    if not viols and sc.get("hashseed2"):
        other = sim.run(spec_for(allidx), hs=1)
        st.add_obs(other)
        st.fault("hashseed")
        st.probe("second_hash_seed")
        for i, s in enumerate(sess):
            st.check("hash_seed_pairs")
            if s["meta"].get("dest_fmt") == "lopar":
                p = s["base"] + "/g.start"
                if p in combined["files"] and combined["files"][p].count(b"\n") >= 2:
                    st.probe("lopar_start_under_two_hash_seeds")
            d = diff_obs(observation(combined, "s%d" % i, s["base"]),
                         observation(other, "s%d" % i, s["base"]), setfiles=True)
            if d:
                viols.append(cm.viol("C18/hash-seed-dependence/%s/%s" % (s["kind"], d[0]),
                                     session=i, diff=d[1]))
                break
    return fin(sc, st, viols)


def fin(sc, st, viols):
    if sc["mode"] == "additivity":
        shape = ("additivity", sc["kind"], sc["fmt"], sc.get("dest_fmt"), sc.get("transtype"),
                 repr(sc.get("gmode")), tuple(t[0] for t in sc.get("trans", [])),
                 model.shape_class(sc["A"]), model.shape_class(sc["B"]))
        sample = {"mode": "additivity", "kind": sc["kind"], "fmt": sc["fmt"],
                  "dest_fmt": sc.get("dest_fmt"), "trans": [t[0] for t in sc.get("trans", [])],
                  "A": cm.tb_summary(sc["A"]), "B": cm.tb_summary(sc["B"])}
        return {"violations": viols, "stats": st.done(repr(shape), True, sample)}
    sess = sc["sessions"]
    style = "sequential" if not sc["schedule"] else "interleaved"
    shape = (tuple((s["kind"], s["meta"].get("src_fmt"), s["meta"].get("dest_fmt"),
                    tuple(s["meta"].get("trans", [])), bool(s.get("cancelled")))
                   for s in sess), tuple(sorted(f["kind"] for f in sc.get("faults", []))), style,
             bool(sc.get("hashseed2")))
    fired = st.d["faults"]
    nontrivial = len(sess) >= 2 or any(fired.get(k) for k in ("io_error", "cancel", "failed_call",
                                                              "hashseed"))
    sample = {"mode": "sessions", "kinds": [s["kind"] for s in sess],
              "first_ops": [[o[0] for o in s["ops"]][:8] for s in sess],
              "schedule": sc["schedule"][:16], "faults": sc.get("faults", []),
              "hashseed2": bool(sc.get("hashseed2"))}
    return {"violations": viols, "stats": st.done(repr(shape), nontrivial, sample)}


# ---------------------------------------------------------------------------------- additivity
def damage_bytes(data, dmg, fmt):
    rng = random.Random(dmg["seed"])
    lines = data.split(b"\n")
    how = dmg["how"]
    if how == "none":
        return data
    if how == "truncate":
        return data[:rng.randrange(max(1, len(data)))]
    if how == "stray_text":
        k = rng.randrange(len(lines))
        junk = [b"", b"%% note", b"  "] + ([b")", b") )"] if fmt != "export" else [])
        return b"\n".join(lines[:k] + [rng.choice(junk)] + lines[k:])
    # drop_word: remove the last field / word of one non-empty line
    cand = [i for i, l in enumerate(lines) if l.strip() and not l.startswith(b"#")]
    if not cand:
        return data
    k = rng.choice(cand)
    parts = lines[k].rstrip().rsplit(b" " if fmt != "export" else b"\t", 1)
    if len(parts) == 2:
        lines[k] = parts[0]
    return b"\n".join(lines)


def add_session(sc, tb, name, raw=None):
    """One session (ops, files, dest) running the scenario's pipeline over treebank tb."""
    kind, fmt = sc["kind"], sc["fmt"]
    codec, ext = sl.SRC[fmt]
    base = "/sim/w/%s" % name
    path = "%s/in%s" % (base, ext)
    files = {path: raw if raw is not None else
             cm.render_file({"tb": tb, "codec": codec, "layout": sc["layout"], "enc": "utf-8"})}
    dest = None
    if kind in ("convert", "cli_transform"):
        dfmt = sc["dest_fmt"]
        dest = "%s/out%s" % (base, sl.DEST_EXT[dfmt])
        if kind == "cli_transform":
            argv = ["transform", path, dest, "--src-format", fmt, "--dest-format", dfmt,
                    "--src-opts", "quiet"]
            if sc["dopts"]:
                argv += ["--dest-opts"] + sorted(sc["dopts"])
            if sc["trans"]:
                argv += ["--trans"] + [t[0] for t in sc["trans"]]
                params = {}
                for t in sc["trans"]:
                    params.update(t[1])
                if params:
                    argv += ["--params"] + ["%s:%s" % (k, v) if v is not True else k
                                            for k, v in sorted(params.items())]
            ops = [["cli", argv]]
        else:
            body = [["trans", "t", t[0], t[1]] for t in sc["trans"]] + \
                [["write", dfmt, "t", "o", sc["dopts"]]]
            ops = [["reader", "r", fmt, path, "utf-8", {"quiet": True}],
                   ["wopen", "o", dest, "utf-8"], ["wbegin", dfmt, "o", sc["dopts"]],
                   ["loop", "r", "t", body], ["wend", dfmt, "o", sc["dopts"]], ["wclose", "o"]]
    elif kind == "grammar":
        ops = [["gnew", "g"], ["reader", "r", fmt, path, "utf-8", {"quiet": True}],
               ["loop", "r", "t", [["extract", "t", "g"]]], ["gdump", "g"]]
        if sc["gmode"]:
            ops += [["gbin", "g", "b", sc["gmode"]["reordering"], sc["gmode"]["markov"]],
                    ["gdump", "b"]]
    elif kind == "transitions":
        pre = ["negra_mark_heads"] + (["binarize"] if sc["transtype"] != "inorder" else [])
        dest = "%s/trans.txt" % base
        body = [["trans", "t", p, {}] for p in pre] + [["tr_extract", sc["transtype"], "t", "l"]]
        ops = [["tr_new", "l"], ["reader", "r", fmt, path, "utf-8", {"quiet": True}],
               ["loop", "r", "t", body], ["tr_write", "l", dest, "utf-8", {}]]
    else:
        ops = [["cli", ["treeanalysis", path, sc["task"], "--src-format", fmt, "--src-opts",
                        "quiet"]]]
    return {"id": name, "ops": ops}, files, dest, base


def run_one(sc, sim, tb, name, st, raw=None):
    s, files, dest, base = add_session(sc, tb, name, raw)
    obs = sim.run({"files": files, "dirs": [base], "sessions": [s], "io_seed": sc["io_seed"]})
    st.add_obs(obs)
    return obs, dest


def sum_grammars(a, b):
    g = {}
    for src in (a, b):
        for k, verts in src.items():
            d = g.setdefault(k, {})
            for v, c in verts.items():
                d[v] = d.get(v, 0) + c
    return g


def sum_lex(a, b):
    lx = {}
    for src in (a, b):
        for w, tags in src.items():
            d = lx.setdefault(w, {})
            for t, c in tags.items():
                d[t] = d.get(t, 0) + c
    return lx


def execute_additivity(sc, sim):
    st = cm.Stats()
    st.declare("additivity_triples", "permutation_runs", "trees_dropped_by_pipeline",
               "additivity_with_damaged_second_treebank",
               "damaged_treebank_rejected_alone_and_in_company")
    A, B = sc["A"], sc["B"]
    AB = A + B
    kind = sc["kind"]
    tag = "%s/%s" % (kind, sc.get("dest_fmt") or sc.get("transtype") or sc.get("task") or
                     ("markov" if sc.get("gmode") else "raw"))
    if sc.get("damageB"):
        codec, _ = sl.SRC[sc["fmt"]]
        ca, cb = sc.get("codecs") or [codec, codec]
        ra = cm.render_file({"tb": A, "codec": ca, "layout": sc["layout"], "enc": "utf-8"})
        rb = damage_bytes(cm.render_file({"tb": B, "codec": cb, "layout": sc["layout"] + 7,
                                          "enc": "utf-8"}), sc["damageB"], sc["fmt"])
        if ca != cb:
            st.probe("export_v3_and_v4_in_one_file")
        if ra and not ra.endswith(b"\n"):
            ra += b"\n"      # files are concatenated line-wise: A's last line must be complete
        oa, da = run_one(sc, sim, A, "A", st, raw=ra)
        ob, db = run_one(sc, sim, B, "B", st, raw=rb)
        oab, dab = run_one(sc, sim, AB, "AB", st, raw=ra + rb)
        st.fault("damage")
        st.probe("additivity_with_damaged_second_treebank")
        return judge_damaged_additivity(sc, st, tag, (oa, da), (ob, db), (oab, dab))
    oa, da = run_one(sc, sim, A, "A", st)
    ob, db = run_one(sc, sim, B, "B", st)
    oab, dab = run_one(sc, sim, AB, "AB", st)
    st.probe("additivity_triples")
    st.fault("concatenation")

    def failed(o, n):
        return any("exc" in r for r in o["sessions"][n]) or o.get("hang")
    fa, fb, fab = failed(oa, "A"), failed(ob, "B"), failed(oab, "AB")
    if fa or fb or fab:
        # a failing part makes the whole fail; a whole that fails needs a failing part
        if fab != (fa or fb) and not (fa and not fab):
            return fin(sc, st, [cm.viol("C18/additivity/%s/failure-not-additive" % tag,
                                        a=fa, b=fb, ab=fab)])
        return fin(sc, st, [])
    viols = []
    if kind in ("convert", "cli_transform"):
        dfmt = sc["dest_fmt"]
        try:
            xa = c03.decode_dest(oa["files"][da], dfmt, "utf-8", sc["dopts"])
            xb = c03.decode_dest(ob["files"][db], dfmt, "utf-8", sc["dopts"])
            xab = c03.decode_dest(oab["files"][dab], dfmt, "utf-8", sc["dopts"])
        except (rc.DecodeError, KeyError):
            st.probe("output_not_decodable")
            return fin(sc, st, [])
        if len(xa) + len(xb) < len(AB):
            st.probe("trees_dropped_by_pipeline")
        v = cmp_seq(xa + xb, xab, dfmt, sc, tag, "concatenation")
        if v:
            viols.append(v)
    elif kind == "grammar":
        da_ = [r["ok"] for r in oa["sessions"]["A"] if r["op"] == "gdump"]
        db_ = [r["ok"] for r in ob["sessions"]["B"] if r["op"] == "gdump"]
        dab_ = [r["ok"] for r in oab["sessions"]["AB"] if r["op"] == "gdump"]
        for j in range(len(dab_)):
            ga, la = refgram.from_dump(da_[j])
            gb, lb = refgram.from_dump(db_[j])
            gab, lab = refgram.from_dump(dab_[j])
            which = "raw" if j == 0 else "binarized"
            if sum_grammars(ga, gb) != gab:
                viols.append(cm.viol("C18/additivity/grammar/%s-not-the-sum" % which,
                                     mode=sc.get("gmode"),
                                     diff=refgram.diff_grammars(sum_grammars(ga, gb), gab)))
                break
            if sum_lex(la, lb) != lab:
                viols.append(cm.viol("C18/additivity/grammar/lexicon-not-the-sum"))
                break
    elif kind == "transitions":
        ta, tb_, tab = [o["files"].get(d, b"") for o, d in ((oa, da), (ob, db), (oab, dab))]
        if ta + tb_ != tab:
            viols.append(cm.viol("C18/additivity/%s/not-the-concatenation" % tag))
    else:
        outs = [o["sessions"][n][0].get("out", "") for o, n in ((oa, "A"), (ob, "B"),
                                                               (oab, "AB"))]
        if sc["task"] == "GapDegree":
            ga, gb, gab = [c16.parse_gap_report(x) for x in outs]
            add = lambda x, y: dict((k, x.get(k, 0) + y.get(k, 0)) for k in set(x) | set(y))
            if None in (ga, gb, gab) or (ga[0][0] + gb[0][0], ga[0][1] + gb[0][1]) != gab[0] \
                    or add(ga[1], gb[1]) != gab[1] or add(ga[2], gb[2]) != gab[2]:
                viols.append(cm.viol("C18/additivity/analysis/GapDegree"))
        elif sc["task"] == "SentenceCount":
            n = [c16.parse_int(x, "sentences") for x in outs]
            if None in n or n[0] + n[1] != n[2]:
                viols.append(cm.viol("C18/additivity/analysis/SentenceCount", got=n))
        else:
            n = [c16.parse_int(x, "different tags") for x in outs]
            if None in n or not (max(n[0], n[1]) <= n[2] <= n[0] + n[1]):
                viols.append(cm.viol("C18/additivity/analysis/PosTags", got=n))
    # ---- permutation of the sentences
    if not viols and len(AB) >= 2 and kind != "analysis":
        rng = random.Random(sc["perm_seed"])
        order = list(range(len(AB)))
        rng.shuffle(order)
        if order != sorted(order):
            st.fault("processing_order_permuted")
            st.probe("permutation_runs")
            P = [model.clone(AB[j]) for j in order]
            op_, dp = run_one(sc, sim, P, "P", st)
            if failed(op_, "P"):
                return fin(sc, st, viols)
            if kind in ("convert", "cli_transform"):
                try:
                    xp = c03.decode_dest(op_["files"][dp], sc["dest_fmt"], "utf-8", sc["dopts"])
                except (rc.DecodeError, KeyError):
                    return fin(sc, st, viols)
                if len(xp) == len(xab) == len(AB):
                    v = cmp_seq([xab[j] for j in order], xp, sc["dest_fmt"], sc, tag,
                                "permutation", ignore_sid=sc["fmt"] in ("brackets",
                                                                         "discobrackets"))
                    if v:
                        viols.append(v)
            elif kind == "grammar":
                dp_ = [r["ok"] for r in op_["sessions"]["P"] if r["op"] == "gdump"]
                for j in range(len(dp_)):
                    if j == 1 and not (sc.get("gmode") or {}).get("markov"):
                        continue
                    gp, lp = refgram.from_dump(dp_[j])
                    gab, lab = refgram.from_dump(dab_[j])
                    if gp != gab or lp != lab:
                        viols.append(cm.viol("C18/permutation/grammar/%s"
                                             % ("raw" if j == 0 else "binarized"),
                                             order=order, diff=refgram.diff_grammars(gab, gp)))
                        break
            elif kind == "transitions":
                la = oab["files"].get(dab, b"").split(b"\n")[:-1]
                lp = op_["files"].get(dp, b"").split(b"\n")[:-1]
                if len(la) == len(lp) == len(AB) and [la[j] for j in order] != lp:
                    viols.append(cm.viol("C18/permutation/%s/lines-not-permuted" % tag))
    return fin(sc, st, viols)


def judge_damaged_additivity(sc, st, tag, a, b, ab):
    """Byte-level concatenation with a damaged second file: failure is additive, and when
    nothing fails the sentence-wise outputs concatenate (compared as raw trees / bytes)."""
    (oa, da), (ob, db), (oab, dab) = a, b, ab

    def failed(o, n):
        return any("exc" in r for r in o["sessions"][n]) or o.get("hang")
    fa, fb, fab = failed(oa, "A"), failed(ob, "B"), failed(oab, "AB")
    if fa:
        return fin(sc, st, [])
    if fb != fab:
        return fin(sc, st, [cm.viol("C18/additivity-damaged/%s/failure-not-additive" % tag,
                                    b_failed=fb, ab_failed=fab, damage=sc["damageB"])])
    if fb:
        st.probe("damaged_treebank_rejected_alone_and_in_company")
        return fin(sc, st, [])
    kind = sc["kind"]
    viols = []
    if kind in ("convert", "cli_transform", "transitions"):
        fa_, fb_, fab_ = [o["files"].get(d, b"") for o, d in ((oa, da), (ob, db), (oab, dab))]
        dfmt = sc.get("dest_fmt")
        if kind == "transitions" or dfmt in ("terminals", "brackets", "discobrackets"):
            if fa_ + fb_ != fab_:
                viols.append(cm.viol("C18/additivity-damaged/%s/not-the-concatenation" % tag,
                                     damage=sc["damageB"]))
        else:
            try:
                xa = c03.decode_dest(fa_, dfmt, "utf-8", sc["dopts"])
                xb = c03.decode_dest(fb_, dfmt, "utf-8", sc["dopts"])
                xab = c03.decode_dest(fab_, dfmt, "utf-8", sc["dopts"])
            except rc.DecodeError:
                return fin(sc, st, [])
            v = cmp_seq(xa + xb, xab, dfmt, sc, tag + "/damaged", "concatenation",
                        ignore_sid=True)
            if v:
                v["detail"]["damage"] = sc["damageB"]
                viols.append(v)
    elif kind == "grammar":
        da_ = [r["ok"] for r in oa["sessions"]["A"] if r["op"] == "gdump"]
        db_ = [r["ok"] for r in ob["sessions"]["B"] if r["op"] == "gdump"]
        dab_ = [r["ok"] for r in oab["sessions"]["AB"] if r["op"] == "gdump"]
        if da_ and db_ and dab_:
            ga, la = refgram.from_dump(da_[0])
            gb, lb = refgram.from_dump(db_[0])
            gab, lab = refgram.from_dump(dab_[0])
            if sum_grammars(ga, gb) != gab or sum_lex(la, lb) != lab:
                viols.append(cm.viol("C18/additivity-damaged/grammar/raw-not-the-sum",
                                     damage=sc["damageB"]))
    return fin(sc, st, viols)


def cmp_seq(exp, got, dfmt, sc, tag, what, ignore_sid=None):
    """Sentence-wise outputs: decoded lists must agree (sids only when the source carries
    them)."""
    from .. import views
    if dfmt == "terminals":
        if exp != got:
            return cm.viol("C18/%s/%s/terminals-differ" % (what if what != "concatenation"
                                                           else "additivity", tag))
        return None
    if len(exp) != len(got):
        return cm.viol("C18/%s/%s/sentence-count" % ("additivity" if what == "concatenation"
                                                     else what, tag),
                       expected=len(exp), got=len(got))
    if ignore_sid is None:
        ignore_sid = sc["fmt"] in ("brackets", "discobrackets")
    for i, (a, b) in enumerate(zip(exp, got)):
        d = views.compare(a, b, check_sid=not ignore_sid) or \
            views.compare(b, a, check_sid=not ignore_sid)
        if d:
            return cm.viol("C18/%s/%s/%s" % ("additivity" if what == "concatenation" else what,
                                             tag, d[0]), sentence=i, diff=d[1])
    return None


# ---------------------------------------------------------------------------------- shrink
def shrink_candidates(sc):
    if sc["mode"] == "cli_vs_api":
        for tb in model.shrink_treebank(sc["tb"]):
            if tb:
                c = model.clone(sc)
                c["tb"] = tb
                yield c
        for i in range(len(sc["trans"])):
            c = model.clone(sc)
            del c["trans"][i]
            yield c
        return
    if sc["mode"] == "reuse":
        for tb in model.shrink_treebank(sc["tb"]):
            if tb:
                c = model.clone(sc)
                c["tb"] = tb
                yield c
        if sc.get("first_opts"):
            c = model.clone(sc)
            c["first_opts"] = {}
            yield c
        return
    if sc["mode"] == "directory":
        if len(sc["files"]) > 1:
            for i in range(len(sc["files"])):
                c = model.clone(sc)
                del c["files"][i]
                yield c
        for i in range(len(sc["trans"])):
            c = model.clone(sc)
            del c["trans"][i]
            yield c
        if sc.get("terms"):
            c = model.clone(sc)
            c["terms"] = None
            yield c
        for i, f in enumerate(sc["files"]):
            if f["gz"]:
                c = model.clone(sc)
                c["files"][i]["gz"] = False
                yield c
            for tb in model.shrink_treebank(f["tb"]):
                if tb:
                    c = model.clone(sc)
                    c["files"][i]["tb"] = tb
                    yield c
        return
    if sc["mode"] == "reread":
        for key in ("tb1", "tb2"):
            for tb in model.shrink_treebank(sc[key]):
                if tb:
                    c = model.clone(sc)
                    c[key] = tb
                    yield c
        if sc["gz"]:
            c = model.clone(sc)
            c["gz"] = False
            yield c
        if sc["cli"]:
            c = model.clone(sc)
            c["cli"] = False
            yield c
        return
    if sc["mode"] == "additivity":
        for key in ("A", "B"):
            for tb in model.shrink_treebank(sc[key]):
                if tb:
                    c = model.clone(sc)
                    c[key] = tb
                    for i, s in enumerate(c["A"] + c["B"]):
                        s["sid"] = i + 1
                    yield c
        for i in range(len(sc.get("trans", []))):
            c = model.clone(sc)
            del c["trans"][i]
            yield c
        return
    n = len(sc["sessions"])
    if n > 1:
        for i in range(n):
            c = model.clone(sc)
            del c["sessions"][i]
            c["faults"] = [dict(f, session=f["session"] - (1 if f["session"] > i else 0))
                           for f in c["faults"] if f["session"] != i]
            c["schedule"] = [x for x in c["schedule"]]
            yield c
    if sc["schedule"]:
        c = model.clone(sc)
        c["schedule"] = []
        yield c
        c = model.clone(sc)
        c["schedule"] = sc["schedule"][:len(sc["schedule"]) // 2]
        yield c
    if sc.get("faults"):
        c = model.clone(sc)
        c["faults"] = []
        yield c
    if sc.get("hashseed2"):
        c = model.clone(sc)
        c["hashseed2"] = False
        yield c
    if sc.get("short_reads"):
        c = model.clone(sc)
        c["short_reads"] = False
        yield c
    for i, s in enumerate(sc["sessions"]):
        for p in sorted(s["files"]):
            f = s["files"][p]
            if "tb" in f:
                for tb in model.shrink_treebank(f["tb"]):
                    if tb:
                        c = model.clone(sc)
                        c["sessions"][i]["files"][p]["tb"] = tb
                        yield c
        # drop ops of explicit op lists (edits / failing sessions)
        if s["kind"] in ("edits",) or s["kind"].startswith("failing_"):
            for j in range(len(s["ops"]) - 1, -1, -1):
                c = model.clone(sc)
                del c["sessions"][i]["ops"][j]
                yield c
        for j, op in enumerate(s["ops"]):
            if op[0] == "loop":
                for k in range(len(op[3]) - 1, -1, -1):
                    if op[3][k][0] == "trans":
                        c = model.clone(sc)
                        del c["sessions"][i]["ops"][j][3][k]
                        yield c
