"""One module per claimed property.  Interface of a property module:

  ID                      'C01'
  RULE                    text: how scenarios are generated, what makes one non-trivial
  budget(tier)            -> number of scenarios for the tier
  generate(seed, tier)    -> scenario (JSON-able dict); pure function of its arguments
  execute(scenario, sim)  -> {'violations': [{'sig', 'detail'}], 'stats': {...}}
  shrink_candidates(sc)   -> iterable of smaller scenarios
  summary(scenario)       -> small JSON-able description for evidence samples
"""
import importlib

CLAIMED = ['C01', 'C03', 'C04', 'C06', 'C08', 'C09', 'C11', 'C16', 'C17', 'C18']


def get(name):
    return importlib.import_module('tsim.props.' + name.lower())
