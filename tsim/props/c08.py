"""C08 - rule and lexicon counts are conserved through extraction and binarization.

Continuation of a C06 session: the extracted grammar is binarized in a seeded mode
(deterministic / Markovized, both reorderings, nofanout).  Small label alphabets make
different source rules map to the same binarized rule: the collision is the "concurrent
update", the iteration order of the grammar dict (= order in which trees were processed) is
the schedule, the failure class is a lost update.  The same treebank is processed in 2-3
orders in sibling simulated processes.
"""
import random

from .. import model, refgram
from . import common as cm

ID = "C08"
RULE = ("scenario = seeded treebank with small label alphabets (rules recur across trees and "
        "vertical contexts), one binarization mode (none/optimal reordering x deterministic or "
        "Markov v,h in 0..3 x nofanout), 2-3 processing orders in sibling processes. Distinct = "
        "distinct (mode, shape class, alphabet size). Non-trivial = some rule count > 1 and some "
        "rule of rank > 2 (binarization really happens).")
ASSUMPTIONS = ["flow equation and per-nonterminal sums are evaluated on the dict returned by "
               "grammar.binarize; counts in written files are C09's business"]


def budget(tier):
    return 6000 if tier == "quick" else 300000


def gen_mode(rng):
    mode = {"reordering": rng.choice(["none", "optimal"]), "markov": None}
    if rng.random() < 0.6:
        m = {"v": rng.randint(0, 3), "h": rng.randint(0, 3)}
        if rng.random() < 0.3:
            m["nofanout"] = True
        mode["markov"] = m
    return mode


def generate(seed, tier):
    rng = random.Random(seed)
    k = model.swarm_knobs(rng, tier, allow=("ascii",))
    k["labels"] = model.LABELS[:rng.choice([1, 2, 2, 3])]
    k["pos"] = model.POS[:rng.choice([1, 2, 3])]
    k["vocab"] = rng.choice([1, 2, 3])
    k["n_max"] = rng.choice([3, 4, 6, 8])
    k["n_min"] = min(3, k["n_max"])
    k["arity"] = rng.choice([3, 4, 6])
    k["unary"] = rng.choice([0.0, 0.1])
    tb = model.gen_treebank(rng, k, nsent=rng.choice([2, 3, 4, 6]))
    model.add_twins(rng, tb, k)
    if rng.random() < 0.4:
        tb.append(model.clone(rng.choice(tb)))
        tb[-1]["sid"] = tb[-2]["sid"] + 1
    if rng.random() < 0.35:
        # the same rules with other linearizations / fan-outs (same vertical contexts)
        for x in rng.sample(tb, min(len(tb), rng.choice([1, 2]))):
            g = model.gap_twin(rng, x, sid=tb[-1]["sid"] + 1)
            if g is not None:
                tb.insert(rng.randrange(len(tb) + 1), g)
    if rng.random() < 0.15:
        # a tree that is a single token: its tag is a tree root and a lexicon entry
        tb.insert(rng.randrange(len(tb) + 1), model.token_tree(rng, k, sid=900))
    norders = rng.choice([2, 3])
    orders = [list(range(len(tb)))]
    for _ in range(norders - 1):
        o = list(range(len(tb)))
        rng.shuffle(o)
        orders.append(o)
    sc = {"tb": tb, "mode": gen_mode(rng), "orders": orders,
          "shuffle": rng.randrange(1 << 30),
          "first_mode": gen_mode(rng) if rng.random() < 0.35 else None}
    if rng.random() < 0.15:
        # the trees went through collapse + uncollapse of their unary chains in memory before
        # extraction: the same trees again, but not the same node objects
        sc["roundtrip"] = True
    return sc


def modesig(mode):
    m = mode["markov"]
    if m is None:
        return "deterministic"
    return "markov-nofanout" if "nofanout" in m else "markov"


def ops_for(sc, order):
    ops = [["gnew", "g"]]
    for j in order:
        ops.append(["build", "t", sc["tb"][j], sc["shuffle"] + j])
        if sc.get("roundtrip") and len(sc["tb"][j]["tokens"]) > 1:
            ops.append(["trans", "t", "collapse_unary_chains", {}])
            ops.append(["trans", "t", "uncollapse_unary_chains", {}])
        ops.append(["extract", "t", "g"])
    ops.append(["gdump", "g"])
    if sc.get("first_mode"):
        # the caller binarizes the same extracted grammar twice (e.g. to write two grammar
        # types): the second result must not depend on the first call
        fm = sc["first_mode"]
        ops.append(["gbin", "g", "b0", fm["reordering"], fm["markov"]])
    ops.append(["gbin", "g", "b", sc["mode"]["reordering"], sc["mode"]["markov"]])
    ops.append(["gdump", "b"])
    if sc.get("first_mode"):
        ops.append(["gdump", "g"])
    return ops


def execute(sc, sim):
    st = cm.Stats()
    st.declare("second_binarization_of_same_grammar", "rule_count_above_1", "rank_above_2_rule", "markov_label_collision",
               "same_rule_two_vertical_contexts", "order_changes_dict_order")
    viols = []
    tb = sc["tb"]
    refg, refl = refgram.extract(tb)
    nodes = refgram.node_label_counts(tb)
    roots = refgram.root_label_counts(tb)
    ms = modesig(sc["mode"])
    if any(c > 1 for v in refg.values() for c in v.values()):
        st.probe("rule_count_above_1")
    if any(len(f) > 3 for (f, _) in refg):
        st.probe("rank_above_2_rule")
    if any(len(v) > 1 for v in refg.values()):
        st.probe("same_rule_two_vertical_contexts")
    results = []
    for oi, order in enumerate(sc["orders"]):
        obs = sim.run({"sessions": [{"id": "s", "ops": ops_for(sc, order)}]})
        st.add_obs(obs)
        if order != sorted(order):
            st.fault("processing_order_permuted")
        recs = obs["sessions"].get("s", [])
        bad = [r for r in recs if "exc" in r]
        if obs.get("hang"):
            viols.append(cm.viol("C08/hang/%s" % ms, mode=sc["mode"]))
            break
        if bad:
            viols.append(cm.viol("C08/raised/%s/%s/%s" % (bad[0]["op"], ms, bad[0]["exc"]),
                                 msg=bad[0].get("msg"), mode=sc["mode"]))
            break
        dumps = [r["ok"] for r in recs if r["op"] == "gdump"]
        if sc.get("first_mode"):
            st.probe("second_binarization_of_same_grammar")
            st.fault("history")
            if len(dumps) == 3:
                g_after, l_after = refgram.from_dump(dumps[2])
                if g_after != refg or l_after != refl:
                    viols.append(cm.viol("C08/input-grammar-changed-by-binarize/%s"
                                         % modesig(sc["first_mode"]), first=sc["first_mode"],
                                         second=sc["mode"],
                                         diff=refgram.diff_grammars(refg, g_after)))
                    break
                dumps = dumps[:2]
        if len(dumps) != 2:
            continue
        raw, _ = refgram.from_dump(dumps[0])
        if raw != refg:
            # extraction itself is wrong: C06's business, do not judge binarization on it
            st.probe("extraction_differs_from_reference")
            break
        bg, bl = refgram.from_dump(dumps[1])
        results.append((order, bg, dumps[1]["func_order"]))
        st.check("binarized_grammars_judged")
        # rank
        if any(len(f) > 3 for (f, _) in bg):
            viols.append(cm.viol("C08/rank-above-2/%s" % ms, mode=sc["mode"]))
            break
        # (i) per original nonterminal
        lhs = {}
        for (func, lin), verts in bg.items():
            lhs[func[0]] = lhs.get(func[0], 0) + sum(verts.values())
        d = dict((a, [nodes[a], lhs.get(a, 0)]) for a in nodes if lhs.get(a, 0) != nodes[a])
        if d:
            viols.append(cm.viol("C08/per-nonterminal-sum/%s" % ms, mode=sc["mode"], order=order,
                                 expected_vs_got=d))
            break
        # (ii) flow conservation for every symbol
        if bl != refl:
            viols.append(cm.viol("C08/lexicon-counts-changed/%s" % ms, mode=sc["mode"],
                                 order=order))
            break
        badflow = refgram.flow_violations(bg, bl, roots)
        if badflow:
            viols.append(cm.viol("C08/flow-conservation/%s" % ms, mode=sc["mode"], order=order,
                                 symbols=[list(x) for x in badflow[:4]]))
            break
        if len(bg) < sum(max(1, len(f) - 2) for (f, _) in refg):
            st.probe("markov_label_collision")
    # (iii) order independence (labels are content-derived only with Markovization)
    if not viols and len(results) >= 2 and sc["mode"]["markov"] is not None:
        base = results[0]
        for order, bg, forder in results[1:]:
            st.check("order_pairs_compared")
            if forder != base[2]:
                st.probe("order_changes_dict_order")
            if bg != base[1]:
                viols.append(cm.viol("C08/order-dependence/%s" % ms, mode=sc["mode"],
                                     orders=[base[0], order],
                                     diff=refgram.diff_grammars(base[1], bg)))
                break
    shape = (ms, sc["mode"]["reordering"], repr(sc["mode"]["markov"]), model.shape_class(tb),
             len(set(c[0] for s in tb for c in model.constituents(s["root"]))))
    nontrivial = st.d["probes"]["rule_count_above_1"] and st.d["probes"]["rank_above_2_rule"]
    sample = {"mode": sc["mode"], "orders": sc["orders"], "sentences": cm.tb_summary(tb),
              "n": len(tb)}
    return {"violations": viols, "stats": st.done(repr(shape), nontrivial, sample)}


def shrink_candidates(sc):
    if len(sc["orders"]) > 1:
        for i in range(len(sc["orders"])):
            c = model.clone(sc)
            del c["orders"][i]
            yield c
    n = len(sc["tb"])
    for i in range(n):
        if n > 1:
            c = model.clone(sc)
            del c["tb"][i]
            c["orders"] = [[j - (1 if j > i else 0) for j in o if j != i] for o in sc["orders"]]
            yield c
    if sc.get("first_mode"):
        c = model.clone(sc)
        c["first_mode"] = None
        yield c
    m = sc["mode"]["markov"]
    if m is not None:
        for key in ("v", "h"):
            if m[key] > 0:
                c = model.clone(sc)
                c["mode"]["markov"][key] = m[key] - 1
                yield c
        if "nofanout" in m:
            c = model.clone(sc)
            del c["mode"]["markov"]["nofanout"]
            yield c
    if sc["mode"]["reordering"] == "optimal":
        c = model.clone(sc)
        c["mode"]["reordering"] = "none"
        yield c
    for i, s in enumerate(sc["tb"]):
        for s2 in model.shrink_sentence(s):
            c = model.clone(sc)
            c["tb"][i] = s2
            yield c
