"""Session library for C18: seeded scripts of repository calls of every kind.

A session is {"kind", "ops", "files": {path: filespec}, "on_error", "dirs"} whose paths live
under /sim/w/s<i>/ so that sessions never share a file.  Everything is explicit JSON: replay
does not depend on this generator.
"""
from .. import model
from . import c08

TRANS_PIPELINES = [
    [],
    [],
    [["root_attach", {}]],
    [["root_attach", {}], ["negra_mark_heads", {}], ["boyd_split", {}], ["raising", {}]],
    [["negra_mark_heads", {}], ["binarize", {}]],
    [["root_attach", {}], ["negra_mark_heads", {}], ["boyd_split", {}]],
    [["mark_heads_by_rules", {"mark_heads_preset": "negra"}]],
    [["punctuation_root", {}]],
    [["root_attach", {}], ["punctuation_verylow", {}]],
    [["add_topnode", {}]],
    [["collapse_unary_chains", {}]],
    [["punctuation_delete", {}]],
    [["ptb_delete_traces", {}]],
    [["filter_by_length", {"filteroperator": "lt", "filtervalue": 3}]],
]
SRC = {"export": ("export4", ".export"), "tigerxml": ("tigerxml", ".xml"),
       "discobrackets": ("discobrackets", ".dbr"), "brackets": ("brackets", ".mrg")}
DEST_EXT = {"export": ".export", "tigerxml": ".xml", "discobrackets": ".dbr",
            "brackets": ".mrg", "terminals": ".txt"}


def gen_tb(rng, tier, continuous=False, nsent=None):
    k = model.swarm_knobs(rng, tier, allow=("ascii", "latin1", "xml"), continuous=continuous)
    k["labels"] = model.LABELS[:rng.choice([1, 2, 3, 6])]
    k["vocab"] = rng.choice([2, 4, 100])
    k["punct"] = rng.choice([0.0, 0.2])
    return model.gen_treebank(rng, k, nsent=nsent or rng.choice([1, 2, 3, 4]),
                              sid_pattern="consecutive")


def src_file(rng, tier, base, fmt=None, tb=None, name="in", big=False):
    fmt = fmt or rng.choice(["export", "export", "tigerxml", "discobrackets", "brackets"])
    if big:
        # a gzip source bigger than an I/O buffer (what is unzipped is still being read while
        # other calls run)
        fmt = rng.choice(["export", "brackets"])
        tb = gen_tb(rng, tier, continuous=(fmt == "brackets"), nsent=rng.randint(100, 180))
    if tb is None:
        tb = gen_tb(rng, tier, continuous=(fmt == "brackets"))
    codec, ext = SRC[fmt]
    parens = False
    if fmt in ("export", "tigerxml") and rng.random() < 0.3:
        # bracket characters in words (these two formats carry them verbatim): what the
        # bracket writers / replace_parens make of them must not depend on history or hash seed
        tb = [model.clone(s) for s in tb]
        for s in tb:
            for t in s["tokens"]:
                if rng.random() < 0.25:
                    t[0] = rng.choice(model.W_PAREN + model.W_PAREN[-3:] * 2)
                    parens = True
                elif t[0] in model.W_PUNCT and rng.random() < 0.5:
                    t[1] = rng.choice(model.P_PAREN)      # a bracket in the tag only
    gz = fmt in ("export", "brackets") and (rng.random() < 0.15 or big)
    path = "%s/%s%s%s" % (base, name, ext, ".gz" if gz else "")
    spec = {"tb": tb, "codec": codec, "layout": rng.randrange(1 << 30),
            "enc": "utf-8", "gz": gz, "parens": parens}
    if gz and rng.random() < 0.3:
        spec["gz_members"] = sorted(rng.random() for _ in range(rng.choice([1, 2])))
    return fmt, path, spec


def tfile(rng, tb, need_pos):
    lines = []
    for s in tb:
        n = len(s["tokens"])
        for idx in sorted(set(rng.randint(1, n + 1) for _ in range(rng.choice([0, 1, 2])))):
            if not need_pos and idx > n:
                continue
            lines.append("%d %d %s %s" % (s["sid"], idx, rng.choice(["neu", "X", "alt"]), "NEW"))
    return {"raw": "\n".join(lines) + ("\n" if lines else "")}


def gen_convert(rng, tier, base, cli, big=False):
    fmt, path, f = src_file(rng, tier, base, big=big)
    files = {path: f}
    dfmt = rng.choice(["export", "tigerxml", "discobrackets", "brackets", "terminals"])
    trans = [list(x) for x in rng.choice(TRANS_PIPELINES)]
    dopts = {}
    if rng.random() < 0.3:
        which = rng.choice(["insert_terminals", "substitute_terminals"])
        tpath = "%s/terms.txt" % base
        files[tpath] = tfile(rng, f["tb"], which == "insert_terminals")
        trans = [[which, {"terminalfile": tpath, "quiet": True}]] + trans
    if dfmt == "brackets" and rng.random() < 0.6:
        dopts["brackets_skipdisco"] = True
    if dfmt == "export" and rng.random() < 0.3:
        dopts["export_four"] = True
    if any(t[0] == "negra_mark_heads" for t in trans) and rng.random() < 0.4 \
            and dfmt in ("export", "brackets", "discobrackets"):
        dopts["mark_heads_marking"] = True
    if any(t[0] == "boyd_split" for t in trans) and dfmt in ("export", "brackets",
                                                             "discobrackets"):
        if rng.random() < 0.5:
            dopts["boyd_split_marking"] = True
        if rng.random() < 0.3:
            dopts["boyd_split_numbering"] = True
    if dfmt in ("export", "brackets", "discobrackets") and rng.random() < 0.25:
        dopts["gf"] = True
        if rng.random() < 0.4:
            dopts["gf_separator"] = rng.choice(["#", "~", "-"])
        if rng.random() < 0.3:
            dopts["gf_terminals"] = True
    if dfmt == "brackets" and rng.random() < 0.3:
        dopts["brackets_emptyroot"] = True
    if dfmt == "terminals" and rng.random() < 0.5:
        dopts[rng.choice(["terminals_pos", "terminals_one"])] = True
    dest = "%s/out%s" % (base, DEST_EXT[dfmt])
    sopts = {"quiet": True}
    if rng.random() < 0.2:
        sopts["gf_split"] = True
        for x in f["tb"]:
            for c in model.constituents(x["root"])[1:]:
                if rng.random() < 0.5 and "-" not in c[0] and "&" not in c[0]:
                    c[0] = c[0] + rng.choice(["-SBJ", "-1", "-TMP-2", "=1"])
        if rng.random() < 0.6:
            trans = [["ptb_delete_traces", rng.choice([{}, {"keepcoindex": True}])]] + \
                [t for t in trans if t[0] != "ptb_delete_traces"]
    if cli:
        argv = ["transform", path, dest, "--src-format", fmt, "--dest-format", dfmt,
                "--src-opts"] + sorted(sopts)
        if dopts:
            argv += ["--dest-opts"] + ["%s:%s" % (k_, v_) if v_ is not True else k_
                                       for k_, v_ in sorted(dopts.items())]
        if trans:
            argv += ["--trans"] + [t[0] for t in trans]
            params = {}
            for t in trans:
                params.update(t[1])
            if params:
                argv += ["--params"] + ["%s:%s" % (k, v) if v is not True else k
                                        for k, v in sorted(params.items())]
        ops = [["cli", argv]]
    else:
        body = [["trans", "t", t[0], t[1]] for t in trans] + [["write", dfmt, "t", "o", dopts]]
        ops = [["reader", "r", fmt, path, "utf-8", sopts], ["wopen", "o", dest, "utf-8"],
               ["wbegin", dfmt, "o", dopts], ["loop", "r", "t", body], ["wend", dfmt, "o", dopts],
               ["wclose", "o"]]
    return {"kind": "cli_transform" if cli else "convert", "ops": ops, "files": files,
            "meta": {"src_fmt": fmt, "dest_fmt": dfmt, "trans": [t[0] for t in trans],
                     "dopts": dopts, "src": path, "dest": dest}}


def gen_grammar(rng, tier, base, cli):
    dfmt = rng.choice(["pmcfg", "rcg", "lopar"])
    fmt, path, f = src_file(rng, tier, base, fmt=rng.choice(["export", "tigerxml", "brackets"])
                            if dfmt != "lopar" else rng.choice(["brackets", "export"]))
    if dfmt == "lopar" and fmt == "brackets":
        for x in f["tb"]:
            x["root"][0] = rng.choice(["VROOT", "TOP", "FRAG", "ROOT"])   # several start symbols
        f["kw"] = {"emptyroot": False}
    mode = c08.gen_mode(rng) if rng.random() < 0.7 else None
    dest = "%s/g" % base
    if cli:
        gramtype = "treebank" if mode is None else \
            ("leftright" if mode["reordering"] == "none" else "optimal")
        argv = ["grammar", path, dest, gramtype, "--src-format", fmt, "--dest-format", dfmt,
                "--src-opts", "quiet"]
        if mode and mode["markov"]:
            m = mode["markov"]
            argv += ["--markov", "v:%d" % m["v"], "h:%d" % m["h"]] + \
                (["nofanout"] if "nofanout" in m else [])
        ops = [["cli", argv]]
    else:
        ops = [["gnew", "g"], ["reader", "r", fmt, path, "utf-8", {"quiet": True}],
               ["loop", "r", "t", [["extract", "t", "g"]]], ["gdump", "g"]]
        var = "g"
        if mode is not None:
            ops += [["gbin", "g", "b", mode["reordering"], mode["markov"]], ["gdump", "b"]]
            var = "b"
        gopts = {"lex_in_grammar": True} if dfmt != "lopar" and rng.random() < 0.3 else {}
        ops.append(["gwrite", dfmt, var, dest, "utf-8", gopts])
        if dfmt == "rcg" and not gopts and rng.random() < 0.4:
            # the grammar files are read back and re-emitted by the command line
            ops.append(["gread", "rcg", "r2", dest, "utf-8", {}])
            ops.append(["gdump", "r2"])
            ops.append(["cli", ["grammar", dest, "%s/h" % base, "treebank", "--src-format", "rcg",
                                "--dest-format", "pmcfg"]])
    return {"kind": "cli_grammar" if cli else "grammar", "ops": ops, "files": {path: f},
            "meta": {"src_fmt": fmt, "dest_fmt": dfmt, "mode": mode}}


def gen_analysis(rng, tier, base, cli):
    fmt, path, f = src_file(rng, tier, base)
    task = rng.choice(["GapDegree", "PosTags", "SentenceCount"])
    if cli:
        ops = [["cli", ["treeanalysis", path, task, "--src-format", fmt, "--src-opts", "quiet"]]]
    else:
        ops = [["task_new", "k", task], ["reader", "r", fmt, path, "utf-8", {"quiet": True}],
               ["loop", "r", "t", [["task_run", "k", "t"]]], ["task_done", "k"]]
    return {"kind": "cli_analysis" if cli else "analysis", "ops": ops, "files": {path: f},
            "meta": {"task": task, "src_fmt": fmt}}


def gen_transitions(rng, tier, base, cli):
    kind = rng.choice(["topdown", "inorder", "gap"])
    fmt = rng.choice(["brackets", "export"]) if kind != "gap" else rng.choice(["export",
                                                                                "tigerxml"])
    tb = gen_tb(rng, tier, continuous=(kind != "gap"))
    fmt, path, f = src_file(rng, tier, base, fmt=fmt, tb=tb)
    dest = "%s/trans.txt" % base
    pre = ["negra_mark_heads"] + (["binarize"] if kind != "inorder" else [])
    if cli:
        ops = [["cli", ["transitions", path, dest, kind, "--src-format", fmt, "--src-opts",
                        "quiet", "--transform"] + pre]]
    else:
        body = [["trans", "t", p, {}] for p in pre] + [["tr_extract", kind, "t", "l"]]
        ops = [["tr_new", "l"], ["reader", "r", fmt, path, "utf-8", {"quiet": True}],
               ["loop", "r", "t", body], ["tr_write", "l", dest, "utf-8", {}]]
    return {"kind": "cli_transitions" if cli else "transitions", "ops": ops,
            "files": {path: f}, "meta": {"transtype": kind, "src_fmt": fmt}}


def gen_edits(rng, tier, base):
    tb = gen_tb(rng, tier, nsent=rng.choice([2, 3, 4]))
    files = {}
    names = []
    for j in range(rng.choice([1, 2, 2])):
        which = rng.choice(["insert_terminals", "substitute_terminals"])
        p = "%s/terms%d.txt" % (base, j)
        files[p] = tfile(rng, tb, which == "insert_terminals")
        if rng.random() < 0.25:
            # duplicate index: the load fails (a failed call in the history, K9)
            files[p] = {"raw": "1 1 a NN\n1 1 b NN\n"}
        names.append((which, p))
    ops = []
    for j, s in enumerate(tb + tb[:1]):
        which, p = rng.choice(names)
        ops.append(["build", "t", s, rng.randrange(1 << 30)])
        ops.append(["trans", "t", which, {"terminalfile": p, "quiet": True}])
    return {"kind": "edits", "ops": ops, "files": files, "on_error": "continue",
            "meta": {"files": len(names)}}


def gen_ptb_sentence(rng, tier, sid):
    """PTB-like sentence: co-indexed filler constituents and trace tokens."""
    k = model.swarm_knobs(rng, tier, allow=("ascii",), continuous=True)
    k["n_min"], k["n_max"] = 4, max(5, k["n_max"])
    k["labels"] = ["S", "NP", "VP", "WHNP", "SBAR"]
    k["unary"] = 0.1
    s = model.gen_sentence(rng, k, sid)
    cons = model.constituents(s["root"])[1:]
    npairs = rng.choice([1, 2, 2, 3])
    for idx in range(1, npairs + 1):
        if not cons:
            break
        filler = rng.choice(cons)
        if not filler[0][-1:].isdigit():
            filler[0] = filler[0] + "-%d" % idx
        inside = set(model.tokset(filler))
        cands = [i for i in range(1, len(s["tokens"]) + 1)
                 if s["tokens"][i - 1][1] != "-NONE-" and (i not in inside or rng.random() < 0.2)]
        if not cands:
            continue
        for t in rng.sample(cands, min(len(cands), rng.choice([1, 1, 2]))):
            s["tokens"][t - 1][0] = rng.choice(["*T*", "*", "*ICH*"]) + "-%d" % idx
            s["tokens"][t - 1][1] = "-NONE-"
    if rng.random() < 0.3:
        c = rng.choice(cons) if cons else None
        if c is not None and "=" not in c[0] and not c[0][-1:].isdigit():
            c[0] += "=%d" % rng.randint(1, 2)
    return s


def gen_ptb(rng, tier, base):
    ops = []
    n = rng.choice([2, 3, 4])
    sents = [gen_ptb_sentence(rng, tier, j + 1) for j in range(n)]
    if rng.random() < 0.5:
        sents.append(model.clone(sents[0]))
    for j, s in enumerate(sents):
        params = {}
        r = rng.random()
        if r < 0.35:
            params["slash"] = True
        elif r < 0.5:
            params["slash"] = rng.choice(["*T*", "*T*,*"])
        if rng.random() < 0.4:
            params["keepcoindex"] = True
        if rng.random() < 0.4:
            params["keepall"] = True
        elif rng.random() < 0.4:
            params["keep"] = rng.choice(["*T*", "*,*ICH*", "*T*,*"])
        ops.append(["build", "t", s, rng.randrange(1 << 30)])
        if rng.random() < 0.3:
            ops.append(["trans", "t", "negra_mark_heads", {}])
            ops.append(["trans", "t", "binarize", {}])
        ops.append(["trans", "t", "ptb_delete_traces", params])
    return {"kind": "ptb", "ops": ops, "files": {}, "on_error": "continue", "meta": {}}


def gen_failing(rng, tier, base):
    """A session that contains a call failing for a legitimate reason (K9)."""
    which = rng.choice(["bad_brackets", "disco_to_brackets", "noncf_lopar", "bad_preset",
                        "dup_terminals"])
    files = {}
    if which == "bad_brackets":
        path = "%s/bad.mrg" % base
        files[path] = {"raw": rng.choice(["(S (NP (NN a)) (VP b))\n(S (X y))\n",
                                          "(S (NP (NN a))\n", "(S (NN a)) x (\n",
                                          "(VROOT (NN a))\n(VROOT ((NN b)))\n"])}
        ops = [["reader", "r", "brackets", path, "utf-8", {"quiet": True}],
               ["loop", "r", "t", []]]
    elif which == "disco_to_brackets":
        tb = gen_tb(rng, tier)
        for s in tb:
            if len(s["tokens"]) < 3:
                s["tokens"] += [["x", "NN", "x", "--", "--"], ["y", "NN", "y", "--", "--"],
                                ["z", "NN", "z", "--", "--"]]
                n = len(s["tokens"])
                s["root"] = [model.ROOT, "--", [["S", "--", [n - 2, n]], n - 1] +
                             list(range(1, n - 2))]
                model.sort_children(s["root"])
        fmt, path, f = src_file(rng, tier, base, fmt="export", tb=tb)
        files[path] = f
        dest = "%s/out.mrg" % base
        ops = [["reader", "r", fmt, path, "utf-8", {"quiet": True}], ["wopen", "o", dest, "utf-8"],
               ["loop", "r", "t", [["write", "brackets", "t", "o", {}]]], ["wclose", "o"]]
    elif which == "noncf_lopar":
        tb = gen_tb(rng, tier)
        ops = [["gnew", "g"]]
        for j, s in enumerate(tb):
            ops += [["build", "t", s, j], ["extract", "t", "g"]]
        ops += [["gwrite", "lopar", "g", "%s/g" % base, "utf-8", {}]]
    elif which == "bad_preset":
        tb = gen_tb(rng, tier, nsent=1)
        ops = [["build", "t", tb[0], 1],
               ["trans", "t", "mark_heads_by_rules", {"mark_heads_preset": "klingon"}],
               ["trans", "t", "negra_mark_heads", {}]]
    else:
        tb = gen_tb(rng, tier, nsent=2)
        p = "%s/dup.txt" % base
        files[p] = {"raw": rng.choice(["1 1 a NN\n1 1 b NN\n", "1 1 a NN\nx y z w\n",
                                       "1 1 a NN\n2 1 b NN\n2 zwei c NN\n"])}
        fam = rng.choice(["insert_terminals", "substitute_terminals"])
        ops = [["build", "t", tb[0], 1], ["trans", "t", fam, {"terminalfile": p}],
               ["build", "t", tb[1], 2], ["trans", "t", fam, {"terminalfile": p}]]
    return {"kind": "failing_" + which, "ops": ops, "files": files, "on_error": "continue",
            "meta": {}}


WEIRD = ["", "", "", " x", "[1]", "%d", ".v2", "_50%_rest", "ü", "a*b"]


def gen_cli_twice(rng, tier, base):
    """The same subcommand twice in one process, on different inputs (the drivers' own state
    must not carry over from the first run to the second)."""
    which = rng.choice(["analysis", "analysis", "transform", "grammar", "transitions"])
    gen = {"analysis": gen_analysis, "transform": gen_convert, "grammar": gen_grammar,
           "transitions": gen_transitions}[which]
    a = gen(rng, tier, base + "/a", True)
    b = gen(rng, tier, base + "/b", True)
    if which == "analysis":
        b["ops"][0][1][2] = a["ops"][0][1][2]            # the same task both times
    files = dict(a["files"])
    files.update(b["files"])
    return {"kind": "cli_twice_" + which, "ops": a["ops"] + b["ops"], "files": files,
            "on_error": "continue", "meta": {"src_fmt": a["meta"].get("src_fmt")},
            "dirs": [base + "/a", base + "/b"]}


def gen_session(rng, tier, idx):
    base = "/sim/w/s%d%s" % (idx, rng.choice(WEIRD))
    r = rng.random()
    if r < 0.08:
        s = gen_cli_twice(rng, tier, base)
        s["base"] = base
        return s
    r = rng.random()
    if r < 0.28:
        s = gen_convert(rng, tier, base, cli=rng.random() < 0.4)
    elif r < 0.48:
        s = gen_grammar(rng, tier, base, cli=rng.random() < 0.4)
    elif r < 0.58:
        s = gen_analysis(rng, tier, base, cli=rng.random() < 0.4)
    elif r < 0.70:
        s = gen_transitions(rng, tier, base, cli=rng.random() < 0.4)
    elif r < 0.80:
        s = gen_edits(rng, tier, base)
    elif r < 0.90:
        s = gen_ptb(rng, tier, base)
    else:
        s = gen_failing(rng, tier, base)
    s["base"] = base
    s.setdefault("on_error", "abort")
    return s
