"""C04 - structural transformations preserve the sentence and tree well-formedness.

The one property quantified over *programs*.  State = one real mutable tree (built through
the tree API with shuffled child lists, or delivered by a real reader); a seeded program of
up to 6 transformations whose documented prerequisites hold is applied step by step; 1-2 such
programs run interleaved in one simulated process.  Invariants are evaluated after every step
on raw dumps of the tree (DST idiom), plus a label-multiset model.
"""
import random

from .. import model, treeview
from . import common as cm

ID = "C04"
RULE = ("scenario = 1-2 programs of 1-6 structural transformations (13 op variants incl. "
        "parameters) on seeded trees (API-built with shuffled child lists or read from a "
        "rendered file), enabled only when the documented prerequisite holds on the current "
        "state, interleaved by a seeded schedule. Distinct = distinct (op sequence with "
        "parameters, tree shape class, source). Non-trivial = program length >= 2 or two "
        "programs interleaved.")
ASSUMPTIONS = [
    "prerequisites are judged on the current tree state (head flags on every non-root node, "
    "split/head_block flags) plus 'root_attach applied earlier' where the documentation names it",
    "binarize raising ValueError on an unmarked node of arity > 2 is a documented rejection "
    "and ends the program",
    "collapse_unary_chains on a one-token sentence is disclaimed by its documentation: only "
    "the token sequence is checked and the program ends",
]

STRUCT_OPS = ["root_attach", "negra_mark_heads", "mark_heads_negra", "mark_heads_ptb",
              "boyd_split", "raising", "add_topnode", "punctuation_verylow",
              "punctuation_symetrify", "punctuation_symetrify_relc", "punctuation_root",
              "binarize", "binarize_bare", "collapse_unary_chains", "uncollapse_unary_chains"]


def budget(tier):
    return 12000 if tier == "quick" else 600000


def real_op(name):
    """variant name -> (function name, params)"""
    if name == "mark_heads_negra":
        return "mark_heads_by_rules", {"mark_heads_preset": "negra"}
    if name == "mark_heads_ptb":
        return "mark_heads_by_rules", {"mark_heads_preset": "ptb"}
    if name == "punctuation_symetrify_relc":
        return "punctuation_symetrify", {"relc": "PRELS"}
    if name == "binarize_bare":
        return "binarize", {"bare_bin_labels": True}
    return name, {}


def enabled_ops(state, ntokens):
    heads, split, rattach, collapsed, topnodes = state
    en = ["root_attach", "negra_mark_heads", "mark_heads_negra", "mark_heads_ptb",
          "punctuation_root", "collapse_unary_chains"]
    if topnodes < 2:
        en.append("add_topnode")
    if rattach:
        en += ["punctuation_verylow", "punctuation_symetrify", "punctuation_symetrify_relc"]
    if heads and rattach:
        en += ["boyd_split", "boyd_split"]
    if split:
        en += ["raising", "raising"]
    if heads:
        en += ["binarize", "binarize_bare"]
    if collapsed:
        en += ["uncollapse_unary_chains", "uncollapse_unary_chains"]
    return en


MARKERS = ("negra_mark_heads", "mark_heads_negra", "mark_heads_ptb")


def head_keys_present(prefix):
    """binarize only needs a head flag (valid or stale) on every node it looks at.  Marking
    puts one on every node including the root; every later transformation keeps or copies
    it; only the node of add_topnode has none, which matters once it is no longer the root
    (a second add_topnode since the last marking) or once collapsing has merged it with the
    node below."""
    marked, tops = False, 0
    for op in prefix:
        if op in MARKERS:
            marked, tops = True, 0
        elif op == "add_topnode":
            tops += 1
        elif op in ("collapse_unary_chains", "uncollapse_unary_chains") and tops:
            # merging / re-creating the unary chain below an unflagged top node can leave the
            # node below it without a flag as well
            tops = 2
    return marked and tops <= 1


def step_state(state, op):
    heads, split, rattach, collapsed, topnodes = state
    if op == "root_attach":
        rattach = True
        heads = False          # re-attachment can move a head child away: marking is stale
    elif op in ("punctuation_verylow", "punctuation_symetrify", "punctuation_symetrify_relc",
                "punctuation_root"):
        heads = False          # same: "heads marked" must mean one head child per constituent
    elif op in ("negra_mark_heads", "mark_heads_negra", "mark_heads_ptb"):
        heads = True
    elif op == "boyd_split":
        split = True
    elif op == "add_topnode":
        topnodes += 1
        # head marking leaves a head flag on the old root too, so every non-root node still
        # carries one; the new root needs none (no transformation consults the root's flag)
    elif op in ("binarize", "binarize_bare"):
        pass                   # fresh @ nodes carry no split flags: raising must tolerate that
                               # (its documented prerequisite, a previous boyd_split, holds)
    elif op == "collapse_unary_chains":
        collapsed = True
    elif op == "uncollapse_unary_chains":
        collapsed = False
        # the re-created unary nodes are copies of the node below them, flags included: the
        # copied head / split flags do not describe the new nodes (a unary node's only child
        # would have to be its head) - mark again before relying on them
        heads = False
        split = False
    return (heads, split, rattach, collapsed, topnodes)


def gen_program(rng, ntokens, maxlen):
    """Draw a prerequisite-respecting program: an op is only drawn when its documented
    prerequisite is known to hold (conservative abstract state).  A third of the programs are
    biased towards the documented crossing-branch pipeline
    root_attach, <head marking>, boyd_split, raising with other enabled ops interspersed."""
    prog = []
    state = (False, False, False, False, 0)
    n = rng.randint(1, maxlen)
    wanted = []
    if rng.random() < 0.35:
        wanted = ["root_attach", rng.choice(["negra_mark_heads", "mark_heads_negra",
                                             "mark_heads_ptb"]), "boyd_split", "raising"]
        if rng.random() < 0.3:
            # a node-adding step between the split and the raising
            wanted.insert(3, rng.choice(["binarize", "binarize", "binarize_bare", "add_topnode"]))
        if rng.random() < 0.2:
            # a punctuation step tears the tree open again: second round of the pipeline
            mk = rng.choice(["negra_mark_heads", "mark_heads_negra", "mark_heads_ptb"])
            if rng.random() < 0.5 and wanted[-1] == "raising":
                wanted.pop()
            wanted += [rng.choice(["punctuation_root", "punctuation_root", "punctuation_verylow"]),
                       mk, "boyd_split", "raising"]
            maxlen = max(maxlen, 8)
        n = max(n, len(wanted))
    elif rng.random() < 0.2:
        # constituency preprocessing: heads, top node and punctuation in some order, binarize
        mid = ["add_topnode", rng.choice(["punctuation_root", "punctuation_root",
                                          "root_attach", "collapse_unary_chains"])]
        rng.shuffle(mid)
        wanted = [rng.choice(["negra_mark_heads", "mark_heads_negra", "mark_heads_ptb"])] + mid \
            + [rng.choice(["binarize", "binarize_bare"])]
        if rng.random() < 0.3:
            wanted.insert(rng.randrange(1, 3), wanted.pop(0))     # marking not first
        n = max(n, len(wanted))
    while len(prog) < n:
        en = enabled_ops(state, ntokens)
        if "binarize" not in en and head_keys_present(prog):
            en += ["binarize", "binarize_bare"]      # stale marking is marking enough
        if wanted and wanted[0] in en and rng.random() < 0.75:
            op = wanted.pop(0)
        else:
            op = rng.choice(en)
            if wanted and op == wanted[0]:
                wanted.pop(0)
        prog.append(op)
        state = step_state(state, op)
        if op == "collapse_unary_chains" and ntokens == 1:
            break              # disclaimed end state
    return prog


def generate(seed, tier):
    rng = random.Random(seed)
    nprog = rng.choice([1, 1, 2])
    progs = []
    for i in range(nprog):
        k = model.swarm_knobs(rng, tier, allow=("ascii", "latin1", "xml"))
        if rng.random() < 0.6:
            k["n_max"] = max(k["n_max"], rng.choice([4, 6, 8]))
            k["n_min"] = 3
            k["disc"] = rng.choice([0.3, 0.6, 0.9])
        if rng.random() < 0.3:
            k["labels"] = k["labels"][:2] + rng.sample(model.LABELS_HEADRULES, 3)
        k["punct"] = rng.choice([0.0, 0.1, 0.2, 0.5, 1.0])
        k["pair"] = rng.choice([0.0, 0.2, 0.4])
        k["edges"] = rng.choice([model.EDGES, ["HD", "NK", "--"], ["--"]])
        if rng.random() < 0.3:
            k["pos"] = k["pos"] + ["PRELS"]
        sent = model.gen_sentence(rng, k, sid=rng.randint(1, 50))
        source = rng.choice(["api", "api", "export", "tigerxml"])
        progs.append({"sent": sent, "source": source, "shuffle": rng.randrange(1 << 30),
                      "layout": rng.randrange(1 << 30),
                      "ops": gen_program(rng, len(sent["tokens"]),
                                         rng.choice([6, 6, 6, 8]) if tier == "quick" else 8)})
    nsteps = sum(len(p["ops"]) + 2 for p in progs)
    return {"programs": progs, "schedule": cm.gen_schedule(rng, nprog, nsteps),
            "io_seed": rng.randrange(1 << 30)}


# ---------------------------------------------------------------------------------- execute
def build_spec(sc):
    files = {}
    sessions = []
    for i, p in enumerate(sc["programs"]):
        ops = []
        if p["source"] == "api":
            ops.append(["build", "t", p["sent"], p["shuffle"]])
        else:
            codec = "export4" if p["source"] == "export" else "tigerxml"
            path = "/sim/w/p%d.%s" % (i, "export" if p["source"] == "export" else "xml")
            files[path] = cm.render_file({"tb": [p["sent"]], "codec": codec,
                                          "layout": p["layout"], "enc": "utf-8"})
            ops.append(["reader", "r", p["source"], path, "utf-8", {"quiet": True}])
            ops.append(["next", "r", "t"])
        for name in p["ops"]:
            fn, params = real_op(name)
            ops.append(["trans", "t", fn, params])
        sessions.append({"id": "p%d" % i, "ops": ops})
    return {"files": files, "sessions": sessions, "schedule": sc.get("schedule", []),
            "io_seed": sc.get("io_seed", 0)}


def parts_multiset(dump):
    """'+'-separated label parts over constituents and token POS."""
    out = {}
    for r in dump["nodes"]:
        lab = r["d"][treeview.L_LABEL]
        if not isinstance(lab, str):
            continue
        for part in lab.split("+"):
            out[part] = out.get(part, 0) + 1
    return out


def ms_diff(a, b):
    keys = sorted(set(a) | set(b), key=repr)
    return dict((repr(k), [a.get(k, 0), b.get(k, 0)]) for k in keys if a.get(k, 0) != b.get(k, 0))


def judge_program(p, recs, st):
    viols = []
    i0 = 0
    for i0, rec in enumerate(recs):
        if rec["op"] in ("build", "next"):
            break
    if not recs or "exc" in recs[i0] or not isinstance(recs[i0].get("ok"), dict):
        if recs and "exc" in recs[0]:
            viols.append(cm.viol("C04/harness/source-failed", rec=recs[0].get("msg")))
        return viols
    prev = recs[i0]["ok"]
    probs = treeview.wellformed(prev)
    if probs:
        viols.append(cm.viol("C04/harness/initial-tree-ill-formed", problems=probs))
        return viols
    tokens0 = treeview.token_seq(prev)
    collapsed = False
    history = []           # (op name, label multiset before the op)
    trans = [r for r in recs[i0 + 1:] if r["op"] == "trans"]
    if len(p["ops"]) >= 3:
        st.probe("program_length_3plus")
    if len(tokens0) == 1:
        st.probe("one_token_sentence")
    if all(w in PUNCT_ALL for w, _ in tokens0):
        st.probe("punctuation_only_sentence")
    idx0 = treeview.index(prev)
    for r in prev["nodes"]:
        if r["c"] and all(not idx0[c]["c"] and idx0[c]["d"][treeview.L_WORD] in PUNCT_ALL
                          for c in r["c"]):
            if len(r["c"]) >= 2:
                st.probe("punctuation_only_constituent_2plus")
            elif r["id"] != prev["ret"]:
                st.probe("unary_node_over_punctuation")
    if len(idx0[prev["ret"]]["c"]) == 1:
        st.probe("unary_chain_at_root")
    for step, (name, rec) in enumerate(zip(p["ops"], trans)):
        fn, params = real_op(name)
        st.check("steps_judged")
        if "exc" in rec:
            state_ = (False, False, False, False, 0)
            for nm in p["ops"][:step]:
                state_ = step_state(state_, nm)
            if fn == "binarize" and rec["exc"] == "ValueError" \
                    and not head_keys_present(p["ops"][:step]):
                st.probe("binarize_rejected_unmarked_node")     # some node has no head flag
                return viols
            viols.append(cm.viol("C04/raised/%s/%s" % (fn, rec["exc"]), step=step,
                                 program=p["ops"][:step + 1], msg=rec.get("msg")))
            return viols
        cur = rec["ok"]
        if cur is None:
            viols.append(cm.viol("C04/returned-none/%s" % fn, step=step,
                                 program=p["ops"][:step + 1]))
            return viols
        idx = treeview.index(cur)
        # disclaimed state: collapsing a sentence that is a pure unary chain
        if fn == "collapse_unary_chains" and not idx[cur["ret"]]["c"]:
            st.probe("collapse_to_leaf_root_disclaimed")
            if [w for w, _ in treeview.token_seq(cur)] != [w for w, _ in tokens0]:
                viols.append(cm.viol("C04/tokens-changed/%s" % fn, step=step,
                                     program=p["ops"][:step + 1]))
            return viols
        # I1 + I2
        probs = treeview.wellformed(cur)
        if probs:
            viols.append(cm.viol("C04/ill-formed/%s/%s" % (fn, probs[0]), step=step,
                                 program=p["ops"][:step + 1], problems=probs))
            return viols
        # I3 token sequence
        toks = treeview.token_seq(cur)
        if fn == "collapse_unary_chains":
            collapsed = True
        if fn == "uncollapse_unary_chains":
            collapsed = False
        ok = len(toks) == len(tokens0)
        if ok:
            for (w0, p0), (w1, p1) in zip(tokens0, toks):
                if w0 != w1:
                    ok = False
                elif collapsed:
                    if not (p1 == p0 or (isinstance(p1, str) and p1.endswith("+" + p0))):
                        ok = False
                elif p0 != p1:
                    ok = False
        if not ok:
            viols.append(cm.viol("C04/tokens-changed/%s" % fn, step=step,
                                 program=p["ops"][:step + 1], before=tokens0[:8],
                                 after=toks[:8]))
            return viols
        # I4 label multiset model
        before = treeview.label_multiset(prev)
        after = treeview.label_multiset(cur)
        exp = None
        if fn in ("root_attach", "negra_mark_heads", "mark_heads_by_rules",
                  "punctuation_verylow", "punctuation_symetrify", "punctuation_root"):
            exp = before
        elif fn == "add_topnode":
            exp = dict(before)
            exp["TOP"] = exp.get("TOP", 0) + 1
        elif fn == "boyd_split":
            exp = {}
            nt = treeview.node_tokens(prev)
            for r in prev["nodes"]:
                if r["c"]:
                    k = len(model.runs(nt[r["id"]]))
                    lab = r["d"][treeview.L_LABEL]
                    exp[lab] = exp.get(lab, 0) + k
                    if k >= 3:
                        st.probe("boyd_split_gap_degree_2plus")
        elif fn == "raising":
            exp = dict(before)
            for r in prev["nodes"]:
                if r["c"] and r["id"] != prev["ret"] and r["f"].get("split") \
                        and not r["f"].get("head_block"):
                    lab = r["d"][treeview.L_LABEL]
                    exp[lab] -= 1
                    if exp[lab] == 0:
                        del exp[lab]
            if history and history[-1][0] == "boyd_split":
                st.probe("raising_directly_after_boyd_split")
            # independent of the flags found in the tree: raising undoes the multiplication
            # of boyd_split and removes nothing else, so what comes out is the multiset
            # before the split plus the nodes documented as added since (@-nodes, TOP)
            floor = first_unraised_split_multiset(history)
            if floor is not None:
                # whatever happened since, raising keeps one node of every constituent that
                # existed before the (first) split
                st.probe("raising_judged_against_floor")
                lost = dict((k, v - after.get(k, 0)) for k, v in floor.items()
                            if after.get(k, 0) < v)
                if lost:
                    viols.append(cm.viol("C04/labels/raising/constituent-lost", step=step,
                                         program=p["ops"][:step + 1], lost=lost))
                    return viols
            want = pending_split_multiset(history, before)
            if want is not None:
                st.probe("raising_judged_against_pre_split_multiset")
                if after != want:
                    viols.append(cm.viol("C04/labels/raising/not-restoring-pre-split-multiset",
                                         step=step, program=p["ops"][:step + 1],
                                         diff=ms_diff(want, after)))
                    return viols
        elif fn == "binarize":
            non_at = dict((k, v) for k, v in after.items()
                          if not (isinstance(k, str) and k.startswith("@")))
            if non_at != before and not any(isinstance(k, str) and k.startswith("@")
                                            for k in before):
                viols.append(cm.viol("C04/labels/binarize/non-@-labels-changed", step=step,
                                     program=p["ops"][:step + 1], diff=ms_diff(before, non_at)))
                return viols
            if any(isinstance(k, str) and k.startswith("@") for k in before):
                b2 = dict((k, v) for k, v in before.items() if not k.startswith("@"))
                if non_at != b2:
                    viols.append(cm.viol("C04/labels/binarize/non-@-labels-changed", step=step,
                                         program=p["ops"][:step + 1], diff=ms_diff(b2, non_at)))
                    return viols
        elif fn in ("collapse_unary_chains", "uncollapse_unary_chains"):
            pa, pb = parts_multiset(prev), parts_multiset(cur)
            if pa != pb:
                viols.append(cm.viol("C04/labels/%s/label-parts-not-conserved" % fn, step=step,
                                     program=p["ops"][:step + 1], diff=ms_diff(pa, pb)))
                return viols
            if fn == "uncollapse_unary_chains":
                st.probe("uncollapse_after_collapse")
                if any(isinstance(k, str) and "+" in k for k in after):
                    viols.append(cm.viol("C04/labels/uncollapse_unary_chains/plus-remains",
                                         step=step, program=p["ops"][:step + 1]))
                    return viols
        if exp is not None and exp != after:
            viols.append(cm.viol("C04/labels/%s/multiset" % fn, step=step,
                                 program=p["ops"][:step + 1], diff=ms_diff(exp, after)))
            return viols
        history.append((fn, before))
        prev = cur
    return viols


def first_unraised_split_multiset(history):
    """Label multiset before the earliest boyd_split that has not been followed by a raising;
    None if labels were merged or restored (collapsing) since."""
    idx = None
    for i in range(len(history) - 1, -1, -1):
        if history[i][0] == "raising":
            break
        if history[i][0] in ("collapse_unary_chains", "uncollapse_unary_chains"):
            return None
        if history[i][0] == "boyd_split":
            idx = i
    return None if idx is None else dict(history[idx][1])


def pending_split_multiset(history, before_now):
    """Label multiset expected after `raising`, from the multiset before the last boyd_split
    and the documented additions since; None when the steps in between change labels in
    another way (collapsing) or another split / raising intervenes."""
    idx = None
    for i in range(len(history) - 1, -1, -1):
        if history[i][0] == "raising":
            return None
        if history[i][0] == "boyd_split":
            idx = i
            break
    if idx is None:
        return None
    # only the first split since the last raising is modelled
    for h in reversed(history[:idx]):
        if h[0] == "raising":
            break
        if h[0] == "boyd_split":
            return None
    want = dict(history[idx][1])
    for j in range(idx + 1, len(history)):
        fn, before = history[j]
        after = history[j + 1][1] if j + 1 < len(history) else before_now
        if fn in ("collapse_unary_chains", "uncollapse_unary_chains"):
            return None
        if fn == "add_topnode":
            want["TOP"] = want.get("TOP", 0) + 1
        elif fn in ("binarize",):
            for k, v in after.items():
                if isinstance(k, str) and k.startswith("@"):
                    d = v - before.get(k, 0)
                    if d:
                        want[k] = want.get(k, 0) + d
    return want


PUNCT_ALL = set(model.W_PUNCT + model.W_PAIR + model.W_PAREN)


def execute(sc, sim):
    st = cm.Stats()
    st.declare("program_length_3plus", "punctuation_only_constituent_2plus",
               "unary_node_over_punctuation", "punctuation_only_sentence", "unary_chain_at_root",
               "one_token_sentence", "uncollapse_after_collapse",
               "raising_directly_after_boyd_split", "boyd_split_gap_degree_2plus",
               "raising_judged_against_pre_split_multiset", "raising_judged_against_floor",
               "two_programs_interleaved", "binarize_rejected_unmarked_node",
               "collapse_to_leaf_root_disclaimed")
    spec = build_spec(sc)
    obs = sim.run(spec)
    st.add_obs(obs)
    viols = []
    if obs.get("hang"):
        viols.append(cm.viol("C04/hang", programs=[p["ops"] for p in sc["programs"]]))
    if len(sc["programs"]) >= 2 and st.d["faults"].get("interleave"):
        st.probe("two_programs_interleaved")
    for i, p in enumerate(sc["programs"]):
        viols.extend(judge_program(p, obs["sessions"].get("p%d" % i, []), st))
    shape = tuple((tuple(p["ops"]), p["source"], model.shape_class([p["sent"]]))
                  for p in sc["programs"])
    nontrivial = any(len(p["ops"]) >= 2 for p in sc["programs"]) or len(sc["programs"]) >= 2
    sample = {"programs": [{"ops": p["ops"], "source": p["source"],
                            "sentence": model.summary(p["sent"]),
                            "words": [t[0] for t in p["sent"]["tokens"]][:10]}
                           for p in sc["programs"]], "schedule": sc.get("schedule", [])[:10]}
    return {"violations": viols, "stats": st.done(repr(shape), nontrivial, sample)}


# ---------------------------------------------------------------------------------- shrink
def shrink_candidates(sc):
    if len(sc["programs"]) > 1:
        for i in range(len(sc["programs"])):
            c = model.clone(sc)
            del c["programs"][i]
            c["schedule"] = []
            yield c
    if sc.get("schedule"):
        c = model.clone(sc)
        c["schedule"] = []
        yield c
    for i, p in enumerate(sc["programs"]):
        # drop trailing ops first (keeps prerequisites), then inner ops
        for j in range(len(p["ops"]) - 1, -1, -1):
            c = model.clone(sc)
            del c["programs"][i]["ops"][j]
            if c["programs"][i]["ops"] and prereq_ok(c["programs"][i]["ops"],
                                                      len(p["sent"]["tokens"])):
                yield c
        if p["source"] != "api":
            c = model.clone(sc)
            c["programs"][i]["source"] = "api"
            yield c
        for s2 in model.shrink_sentence(p["sent"]):
            c = model.clone(sc)
            c["programs"][i]["sent"] = s2
            if prereq_ok(p["ops"], len(s2["tokens"])):
                yield c


def prereq_ok(ops, ntokens):
    state = (False, False, False, False, 0)
    for k, op in enumerate(ops):
        if op not in enabled_ops(state, ntokens):
            return False
        state = step_state(state, op)
        if op == "collapse_unary_chains" and ntokens == 1 and k != len(ops) - 1:
            return False
    return True
