"""C06 - grammar extraction is faithful to the treebank.

extract(tree, grammar, lexicon) is a stream of updates to accumulators the caller owns.
Simulated: 1-3 sessions, each feeding its own (grammar, lexicon) tree by tree from an API-built
treebank or a real reader, interleaved by a seeded schedule; the same treebank processed in a
permuted order in a sibling simulated process.  Oracle: conservation after every step,
refinement against the set-based reference extraction after every step, context-freeness flag,
order independence.
"""
import random

from .. import model, refgram, treeview
from . import common as cm

ID = "C06"
RULE = ("scenario = 1-3 extraction sessions over seeded treebanks (small label/word alphabets so "
        "that rules and words recur), trees from the API (shuffled child lists) or from a real "
        "reader over a rendered file, sessions interleaved by a seeded schedule, plus a sibling "
        "process with permuted sentence order. Distinct = distinct (sources, shape classes, "
        "alphabet sizes, #sessions). Non-trivial = some rule count > 1 or >= 2 sessions "
        "interleaved or >= 2 sentences.")
ASSUMPTIONS = ["reference extraction (tsim/refgram.py) written from the property text; "
               "agreement with the real extract on clean runs is itself the refinement check"]


def budget(tier):
    return 2500 if tier == "quick" else 250000


def gen_session(rng, tier, i):
    k = model.swarm_knobs(rng, tier, allow=("ascii", "latin1"))
    k["labels"] = model.LABELS[:rng.choice([1, 2, 2, 3, 6])]
    k["pos"] = model.POS[:rng.choice([1, 2, 3])]
    k["vocab"] = rng.choice([1, 2, 3, 100])
    k["n_max"] = rng.choice([2, 3, 5, 8])
    tb = model.gen_treebank(rng, k, nsent=rng.choice([1, 2, 3, 4, 6]))
    model.add_twins(rng, tb, k)
    if rng.random() < 0.3 and len(tb) >= 1:
        tb.append(model.clone(rng.choice(tb)))          # repeated identical sentence
        tb[-1]["sid"] = tb[-2]["sid"] + 1
    source = rng.choice(["api", "api", "export", "tigerxml", "discobrackets"])
    if source == "api" and rng.random() < 0.04:
        tb.append(model.deep_sentence(rng, rng.choice([66, 70, 90]), sid=800))
    if rng.random() < 0.04:
        tb.append(model.comb_sentence(rng, rng.choice([9, 10, 11, 12]), sid=801))
        if source == "export":
            source = "api"
    if source == "api" and rng.random() < 0.15:
        # a tree that is a single token: one lexicon occurrence, no rule
        tb.insert(rng.randrange(len(tb) + 1), model.token_tree(rng, k, sid=900))
    if source == "api" and rng.random() < 0.03:
        tb = [model.token_tree(rng, k, sid=j + 1) for j in range(rng.choice([0, 1, 2]))]
    trans = []
    if rng.random() < 0.3 and not any(isinstance(x["root"], int) for x in tb):
        # in-process transformations between reading and extraction: the grammar must be
        # that of the tree actually handed to extract (judged on its raw dump)
        trans = [list(x) for x in rng.choice(PIPELINES)]
    return {"tb": tb, "source": source, "shuffle": rng.randrange(1 << 30),
            "layout": rng.randrange(1 << 30), "trans": trans,
            "extract_before": bool(trans) and rng.random() < 0.5}


PIPELINES = [
    [["root_attach", {}]],
    [["root_attach", {}], ["negra_mark_heads", {}], ["boyd_split", {}], ["raising", {}]],
    [["punctuation_root", {}]],
    [["add_topnode", {}]],
    [["root_attach", {}], ["punctuation_verylow", {}]],
    [["negra_mark_heads", {}], ["binarize", {}]],
    [["collapse_unary_chains", {}]],
    [["collapse_unary_chains", {}], ["uncollapse_unary_chains", {}]],
    [["add_topnode", {}], ["collapse_unary_chains", {}], ["uncollapse_unary_chains", {}]],
]


def generate(seed, tier):
    rng = random.Random(seed)
    n = rng.choice([1, 1, 2, 3])
    sessions = [gen_session(rng, tier, i) for i in range(n)]
    nsteps = sum(3 * len(s["tb"]) + 4 for s in sessions)
    return {"sessions": sessions, "schedule": cm.gen_schedule(rng, n, nsteps),
            "perm_seed": rng.randrange(1 << 30), "io_seed": rng.randrange(1 << 30)}


SRC = {"export": ("export4", "export", ".export"), "tigerxml": ("tigerxml", "tigerxml", ".xml"),
       "discobrackets": ("discobrackets", "discobrackets", ".dbr")}


def session_ops(s, i, files, order=None, dumps=True):
    """ops of one extraction session; order = permutation of sentence indices."""
    tb = s["tb"] if order is None else [s["tb"][j] for j in order]
    ops = [["gnew", "g"]]
    pre = [["trans", "t", t[0], t[1]] for t in s.get("trans", [])]
    if pre:
        pre.append(["dump", "t"])
        if s.get("extract_before"):
            # the same tree object is extracted into a throw-away accumulator, changed in
            # place and extracted again
            pre = [["gnew", "scratch"], ["extract", "t", "scratch"]] + pre
    if s["source"] == "api":
        for j, sent in enumerate(tb):
            ops.append(["build", "t", sent, s["shuffle"] + j])
            ops.extend(pre)
            ops.append(["extract", "t", "g"])
            if dumps:
                ops.append(["gdump", "g"])
    else:
        codec, fmt, ext = SRC[s["source"]]
        path = "/sim/w/s%d%s%s" % (i, "" if order is None else "p", ext)
        files[path] = cm.render_file({"tb": tb, "codec": codec, "layout": s["layout"],
                                      "enc": "utf-8"})
        ops.append(["reader", "r", fmt, path, "utf-8", {"quiet": True}])
        body = pre + [["extract", "t", "g"]]
        if dumps:
            body.append(["gdump", "g"])
        ops.append(["loop", "r", "t", body])
    if not dumps:
        ops.append(["gdump", "g"])
    ops.append(["gcf", "g"])
    return ops


def seen_tb(s):
    """The treebank as extraction sees it (fields a source format drops do not matter for
    grammars: labels, POS and words are carried by every source used here)."""
    return s["tb"]


def execute(sc, sim):
    st = cm.Stats()
    st.declare("extract_after_in_process_transformation", "rule_count_above_1", "same_rule_two_vertical_contexts",
               "sibling_constituents_equal_labels", "node_with_2plus_gaps", "unary_node",
               "interleaved_accumulators", "word_with_two_tags")
    viols = []
    files = {}
    sessions = []
    for i, s in enumerate(sc["sessions"]):
        sessions.append({"id": "s%d" % i, "ops": session_ops(s, i, files)})
    obs = sim.run({"files": files, "sessions": sessions, "schedule": sc.get("schedule", []),
                   "io_seed": sc["io_seed"]})
    st.add_obs(obs)
    if obs.get("hang"):
        viols.append(cm.viol("C06/hang"))
    if len(sc["sessions"]) >= 2 and st.d["faults"].get("interleave"):
        st.probe("interleaved_accumulators")
    finals = {}
    any_count = False
    for i, s in enumerate(sc["sessions"]):
        recs = obs["sessions"].get("s%d" % i, [])
        tb = seen_tb(s)
        k = 0
        refg, refl = {}, {}
        bad = False
        fed = []               # the sentences actually handed to extract
        last_dump = None
        for rec in recs:
            if rec["op"] == "dump" and "ok" in rec:
                last_dump = rec["ok"]
                continue
            if "exc" in rec and rec["op"] == "trans":
                st.probe("pipeline_failed_before_extract")
                bad = True
                break
            if "exc" in rec:
                viols.append(cm.viol("C06/raised/%s/%s" % (rec["op"], rec["exc"]),
                                     msg=rec.get("msg"), session=i, after_sentences=k))
                bad = True
                break
            if rec["op"] == "gdump":
                k += 1
                if k > len(tb):
                    viols.append(cm.viol("C06/more-trees-than-sentences", session=i))
                    bad = True
                    break
                cur = tb[k - 1]
                if s.get("trans"):
                    if last_dump is None or treeview.wellformed(last_dump) or \
                            not treeview.index(last_dump)[last_dump["ret"]]["c"]:
                        st.probe("pipeline_result_not_judged")
                        bad = True
                        break
                    cur = treeview.to_sentence(last_dump)
                    st.probe("extract_after_in_process_transformation")
                    last_dump = None
                fed.append(cur)
                refgram.extract([cur], refg, refl)
                g, lx = refgram.from_dump(rec["ok"])
                st.check("steps_with_conservation_and_refinement")
                v = check_step(g, lx, refg, refl, fed, i, k)
                if v:
                    viols.append(v)
                    bad = True
                    break
                finals[i] = (g, lx)
            elif rec["op"] == "gcf":
                want = all(model.is_continuous(x) for x in (fed if s.get("trans") else tb))
                st.check("contextfree_flag")
                if bool(rec["ok"]) != want:
                    viols.append(cm.viol("C06/contextfree-flag", session=i, expected=want,
                                         got=rec["ok"]))
        if bad:
            finals.pop(i, None)
        if not bad and k != len(tb):
            viols.append(cm.viol("C06/tree-count", session=i, expected=len(tb), got=k))
        # probes
        if any(c > 1 for v in refg.values() for c in v.values()):
            st.probe("rule_count_above_1")
            any_count = True
        if any(len(v) > 1 for v in refg.values()):
            st.probe("same_rule_two_vertical_contexts")
        if any(len(d) > 1 for d in refl.values()):
            st.probe("word_with_two_tags")
        for x in tb:
            for c in model.constituents(x["root"]):
                labs = [y[0] for y in c[2] if not isinstance(y, int)]
                if len(labs) != len(set(labs)):
                    st.probe("sibling_constituents_equal_labels")
                if model.gap_degree_node(c) >= 2:
                    st.probe("node_with_2plus_gaps")
                if len(c[2]) == 1:
                    st.probe("unary_node")
    # order independence: sibling process, permuted sentence order, no interleaving
    if not viols:
        rng = random.Random(sc["perm_seed"])
        files2 = {}
        sessions2 = []
        perms = []
        for i, s in enumerate(sc["sessions"]):
            order = list(range(len(s["tb"])))
            rng.shuffle(order)
            perms.append(order)
            sessions2.append({"id": "s%d" % i, "ops": session_ops(s, i, files2, order=order,
                                                                  dumps=False)})
        obs2 = sim.run({"files": files2, "sessions": sessions2, "schedule": [],
                        "io_seed": sc["io_seed"] + 1})
        st.add_obs(obs2)
        for i, s in enumerate(sc["sessions"]):
            recs = obs2["sessions"].get("s%d" % i, [])
            d = [r for r in recs if r["op"] == "gdump" and "ok" in r]
            if not d or i not in finals:
                continue
            g2, l2 = refgram.from_dump(d[-1]["ok"])
            st.check("order_permutations_compared")
            if perms[i] != sorted(perms[i]):
                st.fault("processing_order_permuted")
            if g2 != finals[i][0] or l2 != finals[i][1]:
                viols.append(cm.viol("C06/order-dependence", session=i, order=perms[i],
                                     diff=refgram.diff_grammars(finals[i][0], g2)))
    shape = tuple((s["source"], model.shape_class(s["tb"])) for s in sc["sessions"])
    nontrivial = any_count or len(sc["sessions"]) >= 2 or any(len(s["tb"]) >= 2
                                                               for s in sc["sessions"])
    sample = {"sessions": [{"source": s["source"], "sentences": cm.tb_summary(s["tb"]),
                            "n": len(s["tb"])} for s in sc["sessions"]],
              "schedule": sc.get("schedule", [])[:12]}
    return {"violations": viols, "stats": st.done(repr(shape), nontrivial, sample)}


def check_step(g, lx, refg, refl, tb, i, k):
    # conservation
    lhs = {}
    total = 0
    for (func, lin), verts in g.items():
        c = sum(verts.values())
        lhs[func[0]] = lhs.get(func[0], 0) + c
        total += c
        if not refgram.well_formed_lin(func, lin):
            return cm.viol("C06/linearization-ill-formed", session=i, after=k, rule=[func, lin])
    want = refgram.node_label_counts(tb)
    if lhs != want:
        return cm.viol("C06/conservation/rule-counts-per-lhs", session=i, after=k,
                       diff=dict((x, [want.get(x, 0), lhs.get(x, 0)])
                                 for x in set(want) | set(lhs) if want.get(x, 0) != lhs.get(x, 0)))
    if total != sum(want.values()):
        return cm.viol("C06/conservation/total-rule-occurrences", session=i, after=k)
    tok = {}
    for s in tb:
        for t in s["tokens"]:
            tok[(t[0], t[1])] = tok.get((t[0], t[1]), 0) + 1
    got = {}
    for w in lx:
        for t, c in lx[w].items():
            got[(w, t)] = c
    if tok != got:
        return cm.viol("C06/conservation/lexicon-counts", session=i, after=k,
                       diff=[(repr(x), tok.get(x, 0), got.get(x, 0))
                             for x in sorted(set(tok) | set(got), key=repr)
                             if tok.get(x, 0) != got.get(x, 0)][:5])
    # refinement
    if g != refg:
        d = refgram.diff_grammars(refg, g)
        kind = "counts" if d and d.startswith("counts") else "rules"
        return cm.viol("C06/refinement/%s" % kind, session=i, after=k, diff=d)
    if lx != refl:
        return cm.viol("C06/refinement/lexicon", session=i, after=k)
    return None


def shrink_candidates(sc):
    if len(sc["sessions"]) > 1:
        for i in range(len(sc["sessions"])):
            c = model.clone(sc)
            del c["sessions"][i]
            c["schedule"] = []
            yield c
    if sc.get("schedule"):
        c = model.clone(sc)
        c["schedule"] = []
        yield c
    for i, s in enumerate(sc["sessions"]):
        if s["source"] != "api":
            c = model.clone(sc)
            c["sessions"][i]["source"] = "api"
            yield c
        for tb in model.shrink_treebank(s["tb"]):
            if tb:
                c = model.clone(sc)
                c["sessions"][i]["tb"] = tb
                yield c
