"""Greedy minimisation of a failing scenario (worker side).

A candidate is kept iff executing it yields a violation with the SAME signature.  Candidates
come from the property module (drop sessions / ops / faults / sentences / constituents /
tokens, simplify strings and options).  Bounded by an execution budget.
"""


def minimise(prop, scenario, sig, sim, budget=250, wall=90):
    import time
    t0 = time.monotonic()
    cur = scenario
    execs = 0
    improved = True
    rounds = 0
    if '/hang' in sig:
        return {'scenario': cur, 'execs': 0, 'rounds': 0}      # every execution costs an alarm
    while improved and execs < budget and time.monotonic() - t0 < wall:
        improved = False
        rounds += 1
        for cand in prop.shrink_candidates(cur):
            if execs >= budget or time.monotonic() - t0 >= wall:
                break
            execs += 1
            try:
                res = prop.execute(cand, sim)
            except Exception:
                continue
            if any(v['sig'] == sig for v in res['violations']):
                cur = cand
                improved = True
                break
    return {'scenario': cur, 'execs': execs, 'rounds': rounds}
