#!/venv/bin/python
"""Regenerates MANIFEST.json from the table below (run by hand after adding a check)."""
import json, os, sys
HERE = os.path.dirname(os.path.abspath(__file__))
sys.path.insert(0, HERE)

BASELINE_OFF = ("cd /repo && /venv/bin/python -m pytest -ra -q -p no:cacheprovider --timeout=900 "
                "--continue-on-collection-errors")

CHECKS = {
 'C01': dict(
    ref='DESIGN.md §5 C01',
    technique='deterministic simulation: seeded interleaving of live reader generators over a '
              'fault-injecting file seam (short reads, gzip/temp path, stored-byte damage), '
              'refinement against a reference codec/recogniser',
    text='Seeded exploration (sampling, not proof): every scenario renders 1-3 treebank files with '
         'the reference encoders, steps 1-3 live readers under a seeded schedule with short reads, '
         'and requires the yielded trees to equal the model (clean) or the bracket recogniser\'s '
         'verdict (damaged bytes). Right level because the clause that only fails in company - '
         'per-sentence state reset, reader/reader interference, EOF inside a group - needs many '
         'multi-sentence, multi-reader, damaged runs, which a seed sweep supplies and shrinks.',
    note='Trusted: reference encoders/decoders and the label-grammar reference (unit-tested by '
         'round trip), CPython text/gzip/expat layers, the SimRaw file seam. disco_reordered is '
         'judged as: tokens in the order of the tree part, word = <index>-<word of that index>.'),
 'C03': dict(
    ref='DESIGN.md §5 C03',
    technique='deterministic simulation: chains of real CLI commands in fresh/forked simulated '
              'processes over a fault-injecting file seam (short reads, listdir permutations, '
              'gzip, encodings), checked against independent decoders and the tool\'s own readers',
    text='Seeded exploration: each scenario runs 1-3 real `treetools transform` commands (real '
         'main() and argparse) over the simulated file system, in separate fresh processes or in '
         'one process, in file or directory mode under two listing orders; every destination is '
         'decoded by an independent decoder and compared with the model pushed through '
         'read_view/write_view, re-read by the tool\'s own reader, and chains A->B->A must give '
         'the original projection. Sampling over 20 format pairs x encodings x options; a clean '
         'batch is evidence, not proof.',
    note='Trusted: reference codecs and the read_view/write_view capability table (DESIGN '
         'Appendix B), CPython text/gzip/expat layers. No --trans; raw parentheses only where the '
         'documented mapping applies; gf is not requested for TIGER-XML output (unspecified).'),
 'C04': dict(
    ref='DESIGN.md §5 C04',
    technique='deterministic simulation: seeded programs of transformations on one mutable tree '
              '(state carried in node flags), interleaved sessions, invariants after every step '
              'plus label-multiset reference model',
    text='Seeded exploration over programs: 1-6 prerequisite-respecting transformations (13 op '
         'variants) applied step by step to a real tree built through the API with shuffled '
         'child lists or delivered by a real reader, 1-2 programs interleaved in one process; '
         'after every step the raw tree dump must be well formed, the returned node must be the '
         'root, the (word, POS) sequence unchanged and the label multiset must follow the '
         'documented model. Sampling, not proof; failing programs are shrunk to 1-3 ops.',
    note='Trusted: raw dump / well-formedness predicate (tsim/treeview.py), the label-multiset '
         'model derived from the transformation docstrings. Prerequisites judged conservatively.'),
 'C06': dict(
    ref='DESIGN.md §5 C06',
    technique='deterministic simulation: interleaved extraction sessions updating caller-owned '
              'accumulators tree by tree; conservation invariants after every step, refinement '
              'against a set-based reference extraction, permuted processing order in a sibling '
              'process',
    text='Seeded exploration: 1-3 sessions feed their own (grammar, lexicon) from API-built or '
         'reader-delivered trees under a seeded interleaving; after every extract call the '
         'accumulator must satisfy the conservation equations and equal the reference extraction '
         'of the sentences seen so far; the context-freeness flag and order independence are '
         'checked at the end. Sampling with small alphabets so that counts exceed 1.',
    note='Trusted: tsim/refgram.py reference extraction (written from the property text).'),
 'C08': dict(
    ref='DESIGN.md §5 C08',
    technique='deterministic simulation: lost-update search - colliding binarization labels as '
              'concurrent updates, processing order as schedule; flow-conservation equations over '
              'the binarized grammar, order independence across sibling processes',
    text='Seeded exploration: treebanks with small label alphabets are extracted and binarized in '
         'one of 2 reorderings x (deterministic | Markov v,h in 0..3 | nofanout) under 2-3 '
         'processing orders in sibling simulated processes; per-nonterminal sums, the flow '
         'equation for every symbol (binarization symbols included) and, for Markov modes, '
         'equality of the result across orders are required. Sampling, not proof.',
    note='Trusted: reference extraction and flow-equation checker in tsim/refgram.py. Counts in '
         'written files are checked by C09.'),
 'C09': dict(
    ref='DESIGN.md §5 C09',
    technique='deterministic simulation: multi-file grammar output on the simulated file system '
              '(write-log history), API and CLI paths, encodings, second hash seed, own-reader '
              're-read with short reads; independent decoders as reference',
    text='Seeded exploration: grammars extracted (and binarized in a seeded mode) from seeded '
         'treebanks are written as pmcfg/rcg/lopar through the API or the real `grammar` command; '
         'independent decoders must give back the in-memory grammar dumped before the writer ran, '
         'the file set must be complete, closed and nothing else written (write-log history), the '
         'own RCG reader and `grammar --src-format rcg` must return/re-emit the same grammar, '
         'LoPar side files must be right under two hash seeds, refusals must happen exactly where '
         'documented. Sampling, not proof.',
    note='Trusted: decoders in tsim/refgram.py (LoPar .gram read as a multiset of surface-order '
         'rules), platform.system stub. Labels/words restricted to what the formats can carry.'),
 'C11': dict(
    ref='DESIGN.md §5 C11',
    technique='deterministic simulation: histories of calls over terminal files on the simulated '
              'file system exercising every state of the function-object cache (cold, warm, '
              'other file, after failed load), stdout as data channel, interleaved sessions; '
              'refinement against functional edit models',
    text='Seeded exploration: 1-2 sessions of 1-6 token-editing calls on fresh trees, with '
         'insert/substitute alternating between differently named terminal files (valid, '
         'out-of-range, index 0, negative, duplicate index, other sentence ids), interleaved by a '
         'seeded schedule; every result is compared with a functional model of the edit, the '
         'returned node must be the root, numbering 1..n, and punctuation_delete\'s stdout lines '
         'must be exactly the deleted tokens. Sampling, not proof.',
    note='Trusted: functional edit models in tsim/props/c11.py (insert convention as fixed by the '
         'test-suite). With the slash parameter only the generic clauses are judged.'),
 'C16': dict(
    ref='DESIGN.md §5 C16',
    technique='deterministic simulation: analysis tasks as stream accumulators through the real CLI '
              '(short reads) and through the API with interleaved task instances; conservation '
              'and additivity against the model, cross-component consistency invariant on every '
              'tree of a run',
    text='Seeded exploration: for treebanks A, B the three analysis tasks run through the real '
         '`treeanalysis` command on A, B and A+B and through the API with two task instances '
         'interleaved; reported totals and histograms must equal the model\'s, report(A+B) = '
         'report(A)+report(B); for every tree gap_degree>0 iff the bracket writer refuses it iff '
         'its grammar is not context-free; per-node gap degree and blocks equal the runs of the '
         'token set; disco_order of the binarized tree is a permutation, identity when continuous.',
    note='Trusted: model gap-degree/runs (tsim/model.py), regular expressions that parse the '
         'task reports.'),
 'C17': dict(
    ref='DESIGN.md §5 C17',
    technique='deterministic simulation: --split runs over the simulated file system, history '
              'check over write log and final files (exactly-once, order, file set), sibling '
              'unsplit run, reference integer arithmetic',
    text='Seeded exploration: `transform --split SPEC` with specs of 1-4 parts (25% malformed or '
         'over-demanding), sizes 0..12 (thorough ..30), all output formats, optional '
         'filter_by_length; the part files must be exactly DEST.0..k-1, their sizes equal the '
         'reference integer arithmetic, the concatenation of the decoded parts equal the decoded '
         'unsplit output of a sibling process tree for tree, each part be a complete document '
         'accepted by the own reader, bad specs be rejected; the arithmetic is also called '
         'directly with sizes up to 10000. Sampling, not exhaustive enumeration.',
    note='Trusted: reference arithmetic ref_sizes (integer floor), reference decoders.'),
 'C18': dict(
    ref='DESIGN.md §5 C18',
    technique='deterministic simulation: call-granularity seeded interleaving of 1-4 sessions of '
              'every kind in one simulated process vs each session alone in a fresh forked '
              'process; fault injection (short reads, I/O errors in live readers, cancellation, '
              'failing calls in the history), second hash seed, additivity/permutation '
              'experiments in sibling processes',
    text='Seeded exploration of histories and schedules: sessions (API pipelines and real CLI '
         'commands of all four subcommands, terminal-file edits, deliberately failing calls) run '
         'interleaved or one after another in one process; every session\'s outcomes, captured '
         'stdout, returned values and files must equal those of the same session alone in a '
         'fresh process (self-relative oracle: cannot fire on a refactoring), a session hit by an '
         'injected I/O error must raise or equal its fault-free self, the scenario must repeat '
         'under a second hash seed up to line order of set-valued files, and outputs must be '
         'additive over A+B and permute with the sentences. Sampling, not proof.',
    note='Trusted: the fork-based fresh-process model, the ops interpreter and raw tree dumps '
         '(tsim/simproc.py). Interleaving stops at call boundaries (no thread safety claimed by '
         'any property). Additivity of deterministic binarization labels is not required.'),
}

NOT_BUILT_YET = {}
NA = {
 'C02': 'pure function (tree, options) -> text; no schedule, fault, history or shared state in any clause; writer behaviour reachable from the CLI is exercised by C03 runs but not claimed',
 'C05': 'fixed three-step pipeline, pure function of one tree; nothing a schedule or fault could change',
 'C07': 'pure function of a rule; "exhaustively all rules of rank <= R" is bounded enumeration (model checking), not simulation',
 'C10': 'pure function of one tree; replaying transitions with an automaton is the checker\'s computation, not a schedule of the system',
 'C12': 'pure per-tree function with no state, I/O, order or fault to vary',
 'C13': 'pure per-tree function with no state, I/O, order or fault to vary',
 'C14': 'f^-1(f(x)) = x on pure per-tree functions; no history or environment involved',
 'C15': 'pure per-tree function with no state, I/O, order or fault to vary',
 'C19': 'pure functions of a tree that is immutable during the call; "exhaustively all shapes" is enumeration',
 'C20': 'pure string functions',
}

def main():
    from tsim import props
    checks = []
    for pid in props.CLAIMED:
        if pid not in CHECKS:
            continue
        c = CHECKS[pid]
        checks.append({
            'property_id': pid,
            'quick_cmd': 'timeout 900 /venv/bin/python /verif/check %s --tier quick' % pid,
            'thorough_cmd': 'timeout 7200 /venv/bin/python /verif/check %s --tier thorough' % pid,
            'evidence_file': '/verif/evidence/%s.json' % pid,
            'replay_cmd_template': '/venv/bin/python /verif/check replay {path}',
            'engine': 'tsim',
            'level_claimed': {'category': 'exploration', 'text': c['text'], 'design_ref': c['ref']},
            'level_note': c['note'],
            'technique': c['technique'],
        })
    na = [{'property_id': k, 'reason': v} for k, v in sorted(NA.items())]
    for pid in props.CLAIMED:
        if pid not in CHECKS:
            na.append({'property_id': pid, 'reason': 'check designed (DESIGN.md §5) but not built yet in this commit; will be claimed when its check exists'})
    na.sort(key=lambda x: x['property_id'])
    m = {
        'version': 1,
        'setup_cmd': 'timeout 600 /venv/bin/python /verif/check setup',
        'hooks': {'guard': 'TREETOOLS_VERIF', 'enable': 'no source hook exists: every seam is patched from outside the repository (builtins.open/io.open, os.listdir/os.scandir, tempfile, platform.system, sys.stdout); checks import /repo\'s working tree afresh on every run',
                  'baseline_off_cmd': BASELINE_OFF, 'source_commits': [], 'add_only': True},
        'engines': [{'name': 'tsim', 'path': '/verif/tsim', 'serves_properties': [c['property_id'] for c in checks],
                     'kind_free_text': 'deterministic simulation with fault injection: forked fresh simulated processes, call-granularity seeded scheduler over session scripts, fault-injecting file seam, scenario JSON replay files, greedy shrinker'}],
        'checks': checks,
        'not_applicable': na,
        'notes': 'See DESIGN.md. Known findings and repaired defects: KNOWN_FINDINGS.txt. Exit codes: 0 held, 1 violation (VIOLATION line), 2 harness error (HARNESS-ERROR line).',
    }
    with open(os.path.join(HERE, 'MANIFEST.json'), 'w') as f:
        json.dump(m, f, indent=1)
        f.write('\n')
    print('MANIFEST.json: %d checks, %d not applicable' % (len(checks), len(na)))

if __name__ == '__main__':
    main()
