#!/bin/bash
# usage: detect_round.sh <glob suffix, e.g. d>   (run from a /verif snapshot: checks are frozen there)
cd "$(dirname "$0")"
for d in seeded/C*-$1?; do
  /venv/bin/python tools_seeded.py detect $d > $d/detect.json 2>/dev/null
  echo "$(basename $d) $(date +%H:%M:%S)"
done
echo ALLDONE
