#!/venv/bin/python
"""Confirm and evaluate seeded property-breaking changes (kept under /verif/seeded/<id>/).

  tools_seeded.py verify <dir-with-patchK.diff/demoK.py> K
        -> applies the patch to a scratch copy of /repo (outside /repo and /verif), checks that
           the unedited test-suite passes, that the demo fails with the patch and passes without
  tools_seeded.py detect <seeded-dir> [--props C01,C18 | --all] [--tier quick]
        -> runs the registered checks against a scratch copy with the patch applied and reports
           which of them print VIOLATION (scratch copy removed afterwards)
Nothing is ever applied to /repo itself by this tool.
"""
import json
import os
import shutil
import subprocess
import sys
import tempfile

HERE = os.path.dirname(os.path.abspath(__file__))
PY = sys.executable
ALL = ['C01', 'C03', 'C04', 'C06', 'C08', 'C09', 'C11', 'C16', 'C17', 'C18']


def scratch(repo='/repo'):
    base = tempfile.mkdtemp(prefix='tsim-seeded-')
    dst = os.path.join(base, 'repo')
    shutil.copytree(repo, dst, ignore=shutil.ignore_patterns('.git', '__pycache__', '*.pyc',
                                                              '.benchmarks', '*.egg-info'))
    subprocess.run(['git', 'init', '-q'], cwd=dst)
    return base, dst


def apply_patch(dst, patch):
    r = subprocess.run(['git', 'apply', '--whitespace=nowarn', os.path.abspath(patch)], cwd=dst,
                       capture_output=True, text=True)
    if r.returncode != 0:
        r = subprocess.run(['patch', '-p1', '--fuzz=3', '-i', os.path.abspath(patch)], cwd=dst,
                           capture_output=True, text=True)
    return r.returncode == 0, r.stderr + r.stdout


def run_tests(dst):
    r = subprocess.run([PY, '-m', 'pytest', '-q', '-p', 'no:cacheprovider'], cwd=dst,
                       capture_output=True, text=True,
                       env=dict(os.environ, PYTHONDONTWRITEBYTECODE='1'))
    tail = r.stdout.strip().splitlines()[-1] if r.stdout.strip() else ''
    return r.returncode == 0, tail


def run_demo(dst, demo):
    r = subprocess.run([PY, os.path.abspath(demo), dst], cwd=dst, capture_output=True, text=True,
                       env=dict(os.environ, PYTHONDONTWRITEBYTECODE='1'), timeout=300)
    return r.returncode, (r.stdout + r.stderr).strip()[-400:]


def verify(d, k):
    patch = os.path.join(d, 'patch%s.diff' % k)
    demo = os.path.join(d, 'demo%s.py' % k)
    base, dst = scratch()
    out = {}
    try:
        rc0, o0 = run_demo(dst, demo)
        out['demo_without'] = rc0
        ok, msg = apply_patch(dst, patch)
        out['applies'] = ok
        if not ok:
            out['apply_msg'] = msg[-300:]
            return out
        t, tail = run_tests(dst)
        out['tests_green'] = t
        out['tests_tail'] = tail
        rc1, o1 = run_demo(dst, demo)
        out['demo_with'] = rc1
        out['demo_with_out'] = o1[-200:]
        out['confirmed'] = bool(ok and t and rc0 == 0 and rc1 != 0)
    finally:
        shutil.rmtree(base, ignore_errors=True)
    return out


def detect(d, props, tier='quick', patchname='patch.diff'):
    base, dst = scratch()
    res = {}
    try:
        ok, msg = apply_patch(dst, os.path.join(d, patchname))
        if not ok:
            return {'error': 'patch does not apply: ' + msg[-200:]}
        for p in props:
            r = subprocess.run([PY, os.path.join(HERE, 'check'), p, '--tier', tier, '--repo', dst,
                                '--no-evidence'], capture_output=True, text=True, cwd=HERE)
            sigs = [l.strip()[len('signature: '):] for l in r.stdout.splitlines()
                    if l.strip().startswith('signature:')]
            replays = [l.split('replay=')[1].strip() for l in r.stdout.splitlines()
                       if l.startswith('VIOLATION')]
            for rp in replays:
                try:
                    os.remove(rp)
                except OSError:
                    pass
            res[p] = {'exit': r.returncode, 'signatures': sigs[:4]}
            if r.returncode == 2:
                res[p]['harness'] = [l for l in r.stdout.splitlines() if 'HARNESS' in l][:2]
    finally:
        shutil.rmtree(base, ignore_errors=True)
    return res


def index():
    """Write seeded/INDEX.md and per-change meta.json 'ran' fields from verify/detect results."""
    root = os.path.join(HERE, 'seeded')
    rows = []
    for name in sorted(os.listdir(root)):
        d = os.path.join(root, name)
        if not os.path.isdir(d):
            continue
        meta = json.load(open(os.path.join(d, 'meta.json')))
        ver = json.load(open(os.path.join(d, 'verify.json'))) if os.path.exists(
            os.path.join(d, 'verify.json')) else {}
        det = json.load(open(os.path.join(d, 'detect.json'))) if os.path.exists(
            os.path.join(d, 'detect.json')) else {}
        caught = dict((p, v['signatures'][0] if v.get('signatures') else 'exit %s' % v['exit'])
                      for p, v in sorted(det.items()) if isinstance(v, dict) and v.get('exit') == 1)
        harness = [p for p, v in det.items() if isinstance(v, dict) and v.get('exit') == 2]
        meta['confirmed'] = {'patch_applies': ver.get('applies'),
                             'existing_tests_pass_with_change': ver.get('tests_green'),
                             'demo_passes_without_change': ver.get('demo_without') == 0,
                             'demo_fails_with_change': ver.get('demo_with') not in (0, None)}
        meta['what_was_run'] = ('tools_seeded.py verify (scratch copy of /repo: git apply, pytest, '
                                'demo with/without); tools_seeded.py detect --all --tier quick '
                                '(every registered quick check against the scratch copy)')
        meta['caught_by'] = caught
        if harness:
            meta['harness_errors_in'] = harness
        with open(os.path.join(d, 'meta.json'), 'w') as f:
            json.dump(meta, f, indent=1, sort_keys=True)
            f.write('\n')
        meta = dict(meta)
        if meta.get('applies_to_current_tree') is False:
            meta['summary'] = '[applies to base commit %s only: %s] ' % (
                meta.get('base_commit'), meta.get('applies_note', '')) + meta.get('summary', '')
        rows.append((name, meta.get('property', name[:3]), meta.get('summary', ''),
                     meta.get('needs', ''), caught, harness))
    with open(os.path.join(root, 'INDEX.md'), 'w') as f:
        f.write('# Seeded property-breaking changes\n\n'
                'Written by sub-agents that saw only the property text and a scratch worktree; '
                'each confirmed by `tools_seeded.py verify` (patch applies, the 116 tests stay '
                'green, the demonstration fails with the change and passes without it). '
                '"caught by" = registered quick checks (VERIF_SEED=1) that exit 1 with a '
                'VIOLATION line on a scratch copy with the change applied.\n\n')
        f.write('| id | property | change | needs | caught by (first signature) |\n|---|---|---|---|---|\n')
        for name, prop, summ, needs, caught, harness in rows:
            c = '; '.join('**%s** `%s`' % (p, sg) for p, sg in caught.items()) or '**MISSED**'
            f.write('| %s | %s | %s | %s | %s |\n' % (name, prop, summ.replace('|', '/')[:300],
                                                   needs.replace('|', '/')[:300], c))
    print('INDEX.md: %d changes, %d caught' % (len(rows), sum(1 for r in rows if r[4])))


def main():
    cmd = sys.argv[1]
    if cmd == 'index':
        return index()
    if cmd == 'verify':
        print(json.dumps(verify(sys.argv[2], sys.argv[3]), indent=1))
    elif cmd == 'detect':
        d = sys.argv[2]
        props = ALL
        tier = 'quick'
        for i, a in enumerate(sys.argv):
            if a == '--props':
                props = sys.argv[i + 1].split(',')
            if a == '--tier':
                tier = sys.argv[i + 1]
        res = detect(d, props, tier)
        print(json.dumps(res, indent=1))


if __name__ == '__main__':
    main()
