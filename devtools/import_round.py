import sys, os, json, shutil, subprocess
sys.path.insert(0, '/verif')
import tools_seeded as ts
letter = sys.argv[1]; base_commit = sys.argv[2]
for prop in ts.ALL:
    src = '/tmp/seeded/%s-%s' % (prop, letter)
    for k in ('1', '2'):
        dst = '/verif/seeded/%s-%s%s' % (prop, letter, k)
        if os.path.isdir(dst) or not os.path.exists(os.path.join(src, 'patch%s.diff' % k)):
            continue
        if not (os.path.exists(os.path.join(src, 'demo%s.py' % k)) and os.path.exists(os.path.join(src, 'meta%s.json' % k))):
            continue
        v = ts.verify(src, k)
        print(prop, k, v.get('confirmed'), v.get('tests_tail'), v.get('demo_without'), v.get('demo_with'))
        if not v.get('confirmed'):
            print('   NOT CONFIRMED', json.dumps(v)[:500]); continue
        os.makedirs(dst)
        shutil.copy(os.path.join(src, 'patch%s.diff' % k), os.path.join(dst, 'patch.diff'))
        shutil.copy(os.path.join(src, 'demo%s.py' % k), os.path.join(dst, 'demo.py'))
        meta = json.load(open(os.path.join(src, 'meta%s.json' % k)))
        meta['base_commit'] = base_commit
        meta['base_commit_note'] = 'commit of /repo the change was written against'
        json.dump(meta, open(os.path.join(dst, 'meta.json'), 'w'), indent=1, sort_keys=True)
        json.dump(v, open(os.path.join(dst, 'verify.json'), 'w'), indent=1, sort_keys=True)
