#!/bin/bash
# usage: soak.sh <factor> <seed> [<seed> ...]   - every check with <factor> x its quick budget under other seeds
# (run from a /verif snapshot via `vp run`; a VIOLATION line on the unchanged tree is either a
# defect of the repository or a false alarm of the machinery and has to be triaged)
cd "$(dirname "$0")/.."
factor=$1; shift
declare -A B=( [C01]=8000 [C03]=4000 [C04]=12000 [C06]=2500 [C08]=6000 [C09]=6000 [C11]=10000 [C16]=2500 [C17]=4000 [C18]=4500 )
for seed in "$@"; do
  for p in C01 C03 C04 C06 C08 C09 C11 C16 C17 C18; do
    n=$(( ${B[$p]} * factor ))
    VERIF_SEED=$seed timeout 3000 ./check $p --tier quick --count $n --no-evidence 2>&1 | grep -v "^  " | tail -4
  done
done
echo SOAKDONE
