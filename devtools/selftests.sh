#!/bin/bash
# all self-tests of the machinery, one after the other (run from a /verif snapshot)
cd "$(dirname "$0")/.."
for t in codecs determinism soundness sensitivity; do
  echo "=== selftest $t $(date +%H:%M:%S)"
  timeout 5400 /venv/bin/python ./check selftest $t 2>&1 | tail -45
  echo "=== exit $?"
done
echo ALLDONE
