import sys, os, json, glob, re
letter = sys.argv[1]; nth = sys.argv[2]
tmpl = open('/tmp/seeded/C18-g.prompt').read()
head, rest = tmpl.split('-----\n', 1)
prop_old, tail = rest.split('-----\n', 1)
for prop in ['C01','C03','C04','C06','C08','C09','C11','C16','C17','C18']:
    txt = open('/tmp/seeded/%s.txt' % prop).read().strip() + '\n'
    metas = sorted(glob.glob('/verif/seeded/%s-*/meta.json' % prop))
    lines = []
    for m in metas:
        s = json.load(open(m))['summary']
        lines.append('  - ' + s[:130].replace('\n', ' '))
    t = tail
    # replace the list of existing mutants
    a = t.index('Twelve mutants for this property already exist')
    b = t.index('You are the seventh person asked')
    t = t[:a] + ('%d mutants for this property already exist; do something DIFFERENT from all of them (other function / other mechanism / other kind of trigger):\n' % len(lines)) + '\n'.join(lines) + '\n' + t[b:]
    t = t.replace('You are the seventh person asked', 'You are the %s person asked' % nth)
    out = (head + '-----\n' + txt + '-----\n' + t).replace('C18-g', '%s-%s' % (prop, letter))
    open('/tmp/seeded/%s-%s.prompt' % (prop, letter), 'w').write(out)
    os.makedirs('/tmp/seeded/%s-%s' % (prop, letter), exist_ok=True)
    wt = '/tmp/wt/%s-%s' % (prop, letter)
    if not os.path.isdir(wt):
        os.system('git -C /repo worktree add -q --detach %s HEAD' % wt)
print('ok')
